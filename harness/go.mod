module verifharness

go 1.21

require (
	cosmossdk.io/log v1.3.1
	cosmossdk.io/math v1.3.0
	cosmossdk.io/store v1.1.0
	github.com/Canto-Network/Canto/v8 v8.0.0
	github.com/cometbft/cometbft v0.38.9
	github.com/cosmos/cosmos-db v1.0.2
	github.com/cosmos/cosmos-sdk v0.50.8
	github.com/cosmos/ibc-go/v8 v8.3.2
	github.com/ethereum/go-ethereum v1.10.26
	github.com/evmos/ethermint v0.22.0
)

require (
	cloud.google.com/go v0.112.0 // indirect
	cloud.google.com/go/compute/metadata v0.2.3 // indirect
	cloud.google.com/go/iam v1.1.6 // indirect
	cloud.google.com/go/storage v1.36.0 // indirect
	cosmossdk.io/api v0.7.5 // indirect
	cosmossdk.io/client/v2 v2.0.0-beta.1.0.20240124105859-5ad1805d0e79 // indirect
	cosmossdk.io/collections v0.4.0 // indirect
	cosmossdk.io/core v0.12.0 // indirect
	cosmossdk.io/depinject v1.0.0-alpha.4 // indirect
	cosmossdk.io/errors v1.0.1 // indirect
	cosmossdk.io/simapp v0.0.0-20231103111158-e83a20081ced // indirect
	cosmossdk.io/x/circuit v0.1.0 // indirect
	cosmossdk.io/x/evidence v0.1.0 // indirect
	cosmossdk.io/x/feegrant v0.1.0 // indirect
	cosmossdk.io/x/tx v0.13.3 // indirect
	cosmossdk.io/x/upgrade v0.1.0 // indirect
	filippo.io/edwards25519 v1.0.0 // indirect
	github.com/99designs/keyring v1.2.2 // indirect
	github.com/DataDog/datadog-go v3.2.0+incompatible // indirect
	github.com/VictoriaMetrics/fastcache v1.6.0 // indirect
	github.com/aws/aws-sdk-go v1.44.224 // indirect
	github.com/beorn7/perks v1.0.1 // indirect
	github.com/bgentry/go-netrc v0.0.0-20140422174119-9fd32a8b3d3d // indirect
	github.com/bgentry/speakeasy v0.1.1-0.20220910012023-760eaf8b6816 // indirect
	github.com/bits-and-blooms/bitset v1.8.0 // indirect
	github.com/btcsuite/btcd/btcec/v2 v2.3.2 // indirect
	github.com/cenkalti/backoff/v4 v4.2.1 // indirect
	github.com/cespare/xxhash/v2 v2.3.0 // indirect
	github.com/chzyer/readline v1.5.1 // indirect
	github.com/cockroachdb/apd/v2 v2.0.2 // indirect
	github.com/cockroachdb/errors v1.11.1 // indirect
	github.com/cockroachdb/logtags v0.0.0-20230118201751-21c54148d20b // indirect
	github.com/cockroachdb/redact v1.1.5 // indirect
	github.com/cometbft/cometbft-db v0.9.1 // indirect
	github.com/cosmos/btcutil v1.0.5 // indirect
	github.com/cosmos/cosmos-proto v1.0.0-beta.5 // indirect
	github.com/cosmos/go-bip39 v1.0.0 // indirect
	github.com/cosmos/gogogateway v1.2.0 // indirect
	github.com/cosmos/gogoproto v1.5.0 // indirect
	github.com/cosmos/iavl v1.1.4 // indirect
	github.com/cosmos/ibc-go/modules/capability v1.0.0 // indirect
	github.com/cosmos/ics23/go v0.10.0 // indirect
	github.com/davecgh/go-spew v1.1.2-0.20180830191138-d8f796af33cc // indirect
	github.com/deckarep/golang-set v1.8.0 // indirect
	github.com/decred/dcrd/dcrec/secp256k1/v4 v4.2.0 // indirect
	github.com/desertbit/timer v0.0.0-20180107155436-c41aec40b27f // indirect
	github.com/dvsekhvalnov/jose2go v1.6.0 // indirect
	github.com/edsrzf/mmap-go v1.0.0 // indirect
	github.com/emicklei/dot v1.6.1 // indirect
	github.com/fatih/color v1.16.0 // indirect
	github.com/felixge/httpsnoop v1.0.4 // indirect
	github.com/fsnotify/fsnotify v1.7.0 // indirect
	github.com/gballet/go-libpcsclite v0.0.0-20190607065134-2772fd86a8ff // indirect
	github.com/getsentry/sentry-go v0.27.0 // indirect
	github.com/go-kit/kit v0.13.0 // indirect
	github.com/go-kit/log v0.2.1 // indirect
	github.com/go-logfmt/logfmt v0.6.0 // indirect
	github.com/go-logr/logr v1.4.1 // indirect
	github.com/go-logr/stdr v1.2.2 // indirect
	github.com/go-stack/stack v1.8.1 // indirect
	github.com/godbus/dbus v0.0.0-20190726142602-4481cbc300e2 // indirect
	github.com/gogo/googleapis v1.4.1 // indirect
	github.com/gogo/protobuf v1.3.2 // indirect
	github.com/golang/groupcache v0.0.0-20210331224755-41bb18bfe9da // indirect
	github.com/golang/mock v1.6.0 // indirect
	github.com/golang/protobuf v1.5.4 // indirect
	github.com/golang/snappy v0.0.4 // indirect
	github.com/google/btree v1.1.2 // indirect
	github.com/google/go-cmp v0.6.0 // indirect
	github.com/google/orderedcode v0.0.1 // indirect
	github.com/google/s2a-go v0.1.7 // indirect
	github.com/google/uuid v1.6.0 // indirect
	github.com/googleapis/enterprise-certificate-proxy v0.3.2 // indirect
	github.com/googleapis/gax-go/v2 v2.12.0 // indirect
	github.com/gorilla/handlers v1.5.2 // indirect
	github.com/gorilla/mux v1.8.1 // indirect
	github.com/gorilla/websocket v1.5.1 // indirect
	github.com/grpc-ecosystem/go-grpc-middleware v1.4.0 // indirect
	github.com/grpc-ecosystem/grpc-gateway v1.16.0 // indirect
	github.com/gsterjov/go-libsecret v0.0.0-20161001094733-a6f4afe4910c // indirect
	github.com/hashicorp/go-cleanhttp v0.5.2 // indirect
	github.com/hashicorp/go-getter v1.7.5 // indirect
	github.com/hashicorp/go-hclog v1.5.0 // indirect
	github.com/hashicorp/go-immutable-radix v1.3.1 // indirect
	github.com/hashicorp/go-metrics v0.5.3 // indirect
	github.com/hashicorp/go-plugin v1.6.0 // indirect
	github.com/hashicorp/go-safetemp v1.0.0 // indirect
	github.com/hashicorp/go-version v1.6.0 // indirect
	github.com/hashicorp/golang-lru v1.0.2 // indirect
	github.com/hashicorp/golang-lru/v2 v2.0.7 // indirect
	github.com/hashicorp/hcl v1.0.0 // indirect
	github.com/hashicorp/yamux v0.1.1 // indirect
	github.com/hdevalence/ed25519consensus v0.1.0 // indirect
	github.com/holiman/bloomfilter/v2 v2.0.3 // indirect
	github.com/holiman/uint256 v1.2.2 // indirect
	github.com/huandu/skiplist v1.2.0 // indirect
	github.com/huin/goupnp v1.0.3 // indirect
	github.com/iancoleman/strcase v0.3.0 // indirect
	github.com/improbable-eng/grpc-web v0.15.0 // indirect
	github.com/jackpal/go-nat-pmp v1.0.2 // indirect
	github.com/jmespath/go-jmespath v0.4.0 // indirect
	github.com/klauspost/compress v1.17.7 // indirect
	github.com/kr/pretty v0.3.1 // indirect
	github.com/kr/text v0.2.0 // indirect
	github.com/lib/pq v1.10.7 // indirect
	github.com/libp2p/go-buffer-pool v0.1.0 // indirect
	github.com/magiconair/properties v1.8.7 // indirect
	github.com/manifoldco/promptui v0.9.0 // indirect
	github.com/mattn/go-colorable v0.1.13 // indirect
	github.com/mattn/go-isatty v0.0.20 // indirect
	github.com/mattn/go-runewidth v0.0.9 // indirect
	github.com/minio/highwayhash v1.0.2 // indirect
	github.com/mitchellh/go-homedir v1.1.0 // indirect
	github.com/mitchellh/go-testing-interface v1.14.1 // indirect
	github.com/mitchellh/mapstructure v1.5.0 // indirect
	github.com/mtibben/percent v0.2.1 // indirect
	github.com/oasisprotocol/curve25519-voi v0.0.0-20230904125328-1f23a7beb09a // indirect
	github.com/oklog/run v1.1.0 // indirect
	github.com/olekukonko/tablewriter v0.0.5 // indirect
	github.com/pelletier/go-toml/v2 v2.1.0 // indirect
	github.com/pkg/errors v0.9.1 // indirect
	github.com/pmezard/go-difflib v1.0.1-0.20181226105442-5d4384ee4fb2 // indirect
	github.com/prometheus/client_golang v1.19.0 // indirect
	github.com/prometheus/client_model v0.6.1 // indirect
	github.com/prometheus/common v0.52.2 // indirect
	github.com/prometheus/procfs v0.13.0 // indirect
	github.com/prometheus/tsdb v0.10.0 // indirect
	github.com/rakyll/statik v0.1.7 // indirect
	github.com/rcrowley/go-metrics v0.0.0-20201227073835-cf1acfcdf475 // indirect
	github.com/rjeczalik/notify v0.9.2 // indirect
	github.com/rogpeppe/go-internal v1.12.0 // indirect
	github.com/rs/cors v1.11.0 // indirect
	github.com/rs/zerolog v1.32.0 // indirect
	github.com/sagikazarmark/slog-shim v0.1.0 // indirect
	github.com/shirou/gopsutil v3.21.4-0.20210419000835-c7a38de76ee5+incompatible // indirect
	github.com/spf13/afero v1.11.0 // indirect
	github.com/spf13/cast v1.6.0 // indirect
	github.com/spf13/cobra v1.8.0 // indirect
	github.com/spf13/pflag v1.0.5 // indirect
	github.com/spf13/viper v1.18.2 // indirect
	github.com/status-im/keycard-go v0.2.0 // indirect
	github.com/stretchr/testify v1.9.0 // indirect
	github.com/subosito/gotenv v1.6.0 // indirect
	github.com/syndtr/goleveldb v1.0.1-0.20220721030215-126854af5e6d // indirect
	github.com/tendermint/go-amino v0.16.0 // indirect
	github.com/tidwall/btree v1.7.0 // indirect
	github.com/tidwall/gjson v1.14.4 // indirect
	github.com/tidwall/match v1.1.1 // indirect
	github.com/tidwall/pretty v1.2.0 // indirect
	github.com/tidwall/sjson v1.2.5 // indirect
	github.com/tklauser/go-sysconf v0.3.10 // indirect
	github.com/tklauser/numcpus v0.4.0 // indirect
	github.com/tyler-smith/go-bip39 v1.1.0 // indirect
	github.com/ulikunitz/xz v0.5.11 // indirect
	go.opencensus.io v0.24.0 // indirect
	go.opentelemetry.io/contrib/instrumentation/google.golang.org/grpc/otelgrpc v0.47.0 // indirect
	go.opentelemetry.io/contrib/instrumentation/net/http/otelhttp v0.47.0 // indirect
	go.opentelemetry.io/otel v1.22.0 // indirect
	go.opentelemetry.io/otel/metric v1.22.0 // indirect
	go.opentelemetry.io/otel/trace v1.22.0 // indirect
	golang.org/x/crypto v0.22.0 // indirect
	golang.org/x/exp v0.0.0-20240404231335-c0f41cb1a7a0 // indirect
	golang.org/x/net v0.24.0 // indirect
	golang.org/x/oauth2 v0.18.0 // indirect
	golang.org/x/sync v0.7.0 // indirect
	golang.org/x/sys v0.19.0 // indirect
	golang.org/x/term v0.19.0 // indirect
	golang.org/x/text v0.14.0 // indirect
	golang.org/x/time v0.5.0 // indirect
	google.golang.org/api v0.162.0 // indirect
	google.golang.org/genproto v0.0.0-20240227224415-6ceb2ff114de // indirect
	google.golang.org/genproto/googleapis/api v0.0.0-20240227224415-6ceb2ff114de // indirect
	google.golang.org/genproto/googleapis/rpc v0.0.0-20240401170217-c3f982113cda // indirect
	google.golang.org/grpc v1.63.2 // indirect
	google.golang.org/protobuf v1.33.0 // indirect
	gopkg.in/ini.v1 v1.67.0 // indirect
	gopkg.in/yaml.v2 v2.4.0 // indirect
	gopkg.in/yaml.v3 v3.0.1 // indirect
	gotest.tools/v3 v3.5.1 // indirect
	nhooyr.io/websocket v1.8.10 // indirect
	pgregory.net/rapid v1.1.0 // indirect
	sigs.k8s.io/yaml v1.4.0 // indirect
)

replace github.com/Canto-Network/Canto/v8 => /repo

replace cosmossdk.io/core => cosmossdk.io/core v0.11.0

replace github.com/99designs/keyring => github.com/cosmos/keyring v1.2.0

replace github.com/evmos/ethermint => github.com/b-harvest/ethermint v0.22.0-sdk50-1

replace github.com/syndtr/goleveldb => github.com/syndtr/goleveldb v1.0.1-0.20210819022825-2ae1ddf74ef7
