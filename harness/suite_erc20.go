package main

// Suite "erc20" (surface M of DESIGN §5.1): the REAL erc20 keeper / message server / EVM hook, rebuilt with the public
// erc20keeper.NewKeeper over the application's real stores, bank and account keepers, but with EVMKeeper = ScriptEVM
// (erc20_util.go).  Serves C15, C14, C04 (and the message-path half of C03).

import (
	"encoding/hex"
	"fmt"
	"math/big"
	"strings"
	"time"

	sdkmath "cosmossdk.io/math"
	storetypes "cosmossdk.io/store/types"
	"github.com/cosmos/cosmos-sdk/runtime"
	"github.com/cosmos/cosmos-sdk/types/query"
	sdk "github.com/cosmos/cosmos-sdk/types"
	authtypes "github.com/cosmos/cosmos-sdk/x/auth/types"
	banktypes "github.com/cosmos/cosmos-sdk/x/bank/types"
	govtypes "github.com/cosmos/cosmos-sdk/x/gov/types"
	"github.com/ethereum/go-ethereum/common"
	ethtypes "github.com/ethereum/go-ethereum/core/types"
	"github.com/ethereum/go-ethereum/crypto"
	"github.com/evmos/ethermint/crypto/ethsecp256k1"
	evmtypes "github.com/evmos/ethermint/x/evm/types"

	"github.com/Canto-Network/Canto/v8/x/erc20"
	erc20keeper "github.com/Canto-Network/Canto/v8/x/erc20/keeper"
	erc20types "github.com/Canto-Network/Canto/v8/x/erc20/types"
)

const nTokens = 6
const nRegCoins = 5 // the first nRegCoins of s.coins are ordinary registrable coins

const ibcDenomA = "ibc/27394FB092D2ECCD56123C74F36E4C1F926001CEADA9CA97EA622B25F41E5EB2"

type e20Suite struct {
	w      *World
	r      *Rng
	t      *Trace
	k      erc20keeper.Keeper
	hooks  erc20keeper.Hooks // ONE hooks value per keeper, for the keeper's lifetime, as app.go wires it (EvmKeeper.SetHooks)
	evm    *ScriptEVM // surface M only
	tok    tokSide
	honest bool // no scripted deviation, no forged receipt, no self-destruct, closed-world funding (C03)
	real   bool // surface E: ethermint's EVM with the compiled contracts
	keys   []*ethsecp256k1.PrivKey
	ids    *idTable
	dump   map[string]string
	cur    *e20Obs // the observation after the last operation = the pre-state of the next (nothing changes in between)
	stat   map[string]int
	gov    string
	mod    sdk.AccAddress
	tokens []common.Address // external token addresses t0..t3
	kaddr  []common.Address // CREATE addresses of the module k0..k39
	aliasDen []string       // "erc20/<address of k0..k3>"
	coins  []string         // coin denominations in play
	hexDen []string         // hex-address-shaped denominations in play
	fresh  []sdk.AccAddress // addresses without an account
	metaV  map[string]int
	scale  int
	later  bool     // this transaction fails in a later message
	noLater bool    // ... never (seeding a world)
	crowd  bool     // a world whose registry is filled past the query servers' default page size (100)
	extra  []string // further registrable coins of a crowded world
}

func tokenAddr(i int) common.Address {
	b := make([]byte, 20)
	copy(b, []byte(fmt.Sprintf("token%d______________", i)))
	// addresses at the two ends of the key space: index ranges are half-open
	switch i {
	case 1:
		b[0] = 0xff
	case 4:
		b[0], b[1] = 0xff, 0xff
	case 5:
		b[0] = 0x00
	}
	return common.BytesToAddress(b)
}

func (s *e20Suite) alias(a []byte) string { return s.w.Alias(sdk.AccAddress(a)) }

func (s *e20Suite) setSeq(ctx sdk.Context, a sdk.AccAddress, seq uint64) {
	acc := s.w.App.AccountKeeper.GetAccount(ctx, a)
	if acc == nil {
		return
	}
	_ = acc.SetSequence(seq)
	s.w.App.AccountKeeper.SetAccount(ctx, acc)
}

func (s *e20Suite) newWorld() {
	r := s.r
	s.cur = nil
	s.kaddr = nil
	s.mod = authtypes.NewModuleAddress(erc20types.ModuleName)
	modHex := common.BytesToAddress(s.mod)
	nk := 40
	s.extra = nil
	if s.crowd {
		nk = 170
		for i, n := 0, 101+r.Intn(12); i < n; i++ {
			s.extra = append(s.extra, fmt.Sprintf("m%03dcoin", i))
		}
	}
	for n := 0; n < nk; n++ {
		s.kaddr = append(s.kaddr, crypto.CreateAddress(modHex, uint64(n)))
	}
	// hex-address-shaped denominations: bare 40 hex digits starting with a letter. One is a fixed literal, the others
	// are the module's first CREATE addresses that happen to start with a letter (so that ConvertCoin can be tried with
	// a denomination that GetTokenPairID routes to the address index of an existing pair).
	s.hexDen = []string{"abcdefabcdefabcdefabcdefabcdefabcdefabcd"}
	for n := 0; n < 6; n++ {
		h := hex.EncodeToString(s.kaddr[n].Bytes())
		if h[0] >= 'a' && h[0] <= 'f' {
			s.hexDen = append(s.hexDen, h)
		}
	}
	// coins that merely NAME a contract the module deploys ("erc20/<address of k0..k3>"): unrelated to any pair — the pair of
	// such a contract is for the native coin it wraps — and harmless to the backing of every pair; a lookup that takes the
	// name for the contract would convert them into that pair's tokens
	s.aliasDen = nil
	for n := 0; n < 4; n++ {
		s.aliasDen = append(s.aliasDen, "erc20/"+s.kaddr[n].String())
	}
	s.coins = []string{"acoin", "bcoin", ibcDenomA, "ccoin", "dcoin", "aCANTOx"}
	fund := sdk.NewCoins()
	big1 := pow10(30)
	switch s.scale {
	case 0:
		big1 = sdkmath.NewInt(1000)
	case 1:
		big1 = pow10(9)
	case 3:
		big1 = pow2(255).SubRaw(1).QuoRaw(8)
	}
	for _, d := range s.coins {
		fund = fund.Add(sdk.NewCoin(d, big1))
	}
	for _, d := range s.hexDen {
		fund = fund.Add(sdk.NewCoin(d, big1))
	}

	for _, d := range s.aliasDen {
		fund = fund.Add(sdk.NewCoin(d, big1))
	}
	fund = fund.Add(sdk.NewCoin("stake", pow10(24)))
	s.tokens = nil
	if s.real {
		s.w, s.keys = newEthWorld(r, 6, fund, time.Unix(1_700_000_000, 0))
		for i := 0; i < nTokens; i++ {
			s.tokens = append(s.tokens, crypto.CreateAddress(common.BytesToAddress(s.w.Users[i]), 0))
		}
	} else {
		for i := 0; i < nTokens; i++ {
			s.tokens = append(s.tokens, tokenAddr(i))
		}
		xd := "erc20/" + s.tokens[nTokens-1].String()
		if !s.honest {
			// the coin name of a (not yet registered) ERC-20, in circulation: cross-registration as a coin
			fund = fund.Add(sdk.NewCoin(xd, big1))
		}
		s.w = NewWorld(6, fund, time.Unix(1_700_000_000, 0))
	}
	s.coins = append(s.coins, "erc20/"+s.tokens[nTokens-1].String())
	w := s.w
	if len(s.extra) > 0 {
		// the further coins of a crowded world exist (supply > 0) in one account only, to keep the ledger small
		xs := sdk.NewCoins()
		for _, d := range s.extra {
			xs = xs.Add(sdk.NewCoin(d, sdkmath.NewInt(1000)))
		}
		if err := w.App.BankKeeper.MintCoins(w.Ctx, erc20types.ModuleName, xs); err != nil {
			panic(err)
		}
		if err := w.App.BankKeeper.SendCoinsFromModuleToAccount(w.Ctx, erc20types.ModuleName, w.Users[0], xs); err != nil {
			panic(err)
		}
	}
	for n, a := range s.kaddr {
		w.SetAlias(a.Bytes(), fmt.Sprintf("k%d", n))
	}
	for i, a := range s.tokens {
		w.SetAlias(a.Bytes(), fmt.Sprintf("t%d", i))
	}
	w.SetAlias(make([]byte, 20), "zero")
	s.fresh = nil
	for i := 0; i < 3; i++ {
		b := make([]byte, 20)
		copy(b, []byte(fmt.Sprintf("fresh%d______________", i)))
		s.fresh = append(s.fresh, b)
		w.SetAlias(b, fmt.Sprintf("n%d", i))
	}
	s.gov = authtypes.NewModuleAddress(govtypes.ModuleName).String()
	s.ids = newIDTable()
	s.metaV = map[string]int{}
	aliasF := func(a sdk.AccAddress) string { return w.Alias(a) }
	if s.real {
		rec := &recordEVM{inner: w.App.EvmKeeper, alias: aliasF}
		s.k = erc20keeper.NewKeeper(runtime.NewKVStoreService(w.App.GetKey(erc20types.StoreKey)), w.App.AppCodec(),
			w.App.GetSubspace(erc20types.ModuleName), w.App.AccountKeeper, w.App.BankKeeper, rec, s.gov)
		s.tok = newRealSide(s, rec)
	} else {
		s.evm = &ScriptEVM{key: w.App.GetKey(evmtypes.StoreKey), ak: w.App.AccountKeeper, setSeq: s.setSeq, alias: aliasF, mod: modHex}
		s.k = erc20keeper.NewKeeper(runtime.NewKVStoreService(w.App.GetKey(erc20types.StoreKey)), w.App.AppCodec(),
			w.App.GetSubspace(erc20types.ModuleName), w.App.AccountKeeper, w.App.BankKeeper, s.evm, s.gov)
		s.tok = &scriptSide{ScriptEVM: s.evm, s: s}
	}
	s.hooks = s.k.Hooks()
	// external honest tokens t0..t3 exist from the start; holders get balances
	for i := 0; i < 4; i++ {
		dep := common.BytesToAddress(w.Users[i])
		sup := big1.BigInt()
		if err := s.tok.Deploy(w.Ctx, s.tokens[i], dep, sup, false); err != nil {
			panic(err)
		}
		for j := 0; j < 5; j++ {
			if j != i {
				share := new(big.Int).Quo(sup, big.NewInt(8))
				if err := s.tok.HolderTx(w.Ctx, s.tokens[i], dep, "xfer", common.BytesToAddress(w.Users[j]), share); err != nil {
					panic(err)
				}
			}
		}
	}
}

// tokSide: what the generator needs from the token / EVM side (script on surface M, ethermint on surface E)
type tokSide interface {
	Reset(d Dev)
	Recording() string
	Fired() bool
	Bal(ctx sdk.Context, c, h common.Address) *big.Int
	HasCode(ctx sdk.Context, c common.Address) bool
	HasBadMeta(ctx sdk.Context, c common.Address) bool
	DumpTokens(ctx sdk.Context) map[string]string
	// an Ethereum transaction of a token holder: the token call, then the post-transaction hook on the receipt
	HolderTx(ctx sdk.Context, c, holder common.Address, call string, to common.Address, amt *big.Int) error
	// somebody deploys an honest token at c (on surface E: c must be the deployer's next CREATE address)
	Deploy(ctx sdk.Context, c, deployer common.Address, supply *big.Int, badMeta bool) error
}

type scriptSide struct {
	*ScriptEVM
	s *e20Suite
}

func (t *scriptSide) HolderTx(ctx sdk.Context, c, holder common.Address, call string, to common.Address, amt *big.Int) error {
	logs, rev := t.HolderCall(ctx, c, holder, call, to, amt)
	if rev {
		return fmt.Errorf("execution reverted")
	}
	msg := ethtypes.NewMessage(holder, &c, 0, big.NewInt(0), 100000, big.NewInt(0), big.NewInt(0), big.NewInt(0), nil, nil, false)
	return t.s.hooks.PostTxProcessing(ctx, msg, &ethtypes.Receipt{Logs: logs})
}

func (t *scriptSide) Deploy(ctx sdk.Context, c, deployer common.Address, supply *big.Int, bad bool) error {
	if !t.DeployExternal(ctx, c, deployer, supply) {
		return fmt.Errorf("contract address collision")
	}
	t.SetBadMeta(ctx, c, bad)
	return nil
}

func (s *e20Suite) envLine() string {
	w := s.w
	var blk []string
	for bech := range w.App.BlockedAddrs() {
		a, _ := sdk.AccAddressFromBech32(bech)
		blk = append(blk, w.Alias(a))
	}
	var ca, ed []string
	for n, a := range s.kaddr {
		ca = append(ca, fmt.Sprintf("%d:%s", n, w.Alias(a.Bytes())))
	}
	all := append(append([]common.Address{}, s.tokens...), s.kaddr[:8]...)
	for _, a := range all {
		ed = append(ed, w.Alias(a.Bytes())+":"+tokenSafe(erc20types.CreateDenom(a.String())))
	}
	// the application's module accounts, from its table of module-account permissions (not from BlockedAddrs)
	var macc []string
	for _, n := range ModuleNames() {
		macc = append(macc, w.Alias(authtypes.NewModuleAddress(n)))
	}
	return fmt.Sprintf("E mod=%s zero=zero blocked=%s ca=%s ed=%s macc=%s", w.Alias(s.mod), sortedJoin(blk), strings.Join(ca, ","), strings.Join(ed, ","), sortedJoin(macc))
}

// ---------- state observation: params, registry (raw from the store), bank-side switches, metadata, module nonce ----------

func (s *e20Suite) regDump(ctx sdk.Context) (pairs, bya, byd string) {
	w := s.w
	store := ctx.KVStore(w.App.GetKey(erc20types.StoreKey))
	it := store.Iterator(nil, nil)
	defer it.Close()
	type raw struct{ k, v []byte }
	var rp, ra, rd []raw
	for ; it.Valid(); it.Next() {
		k := append([]byte{}, it.Key()...)
		v := append([]byte{}, it.Value()...)
		switch k[0] {
		case 1:
			rp = append(rp, raw{k[1:], v})
		case 2:
			ra = append(ra, raw{k[1:], v})
		case 3:
			rd = append(rd, raw{k[1:], v})
		default:
			panic(fmt.Sprintf("unexpected key in the erc20 store: %x", k))
		}
	}
	// learn preimages from everything visible
	var decoded []erc20types.TokenPair
	for _, e := range rp {
		var p erc20types.TokenPair
		w.App.AppCodec().MustUnmarshal(e.v, &p)
		decoded = append(decoded, p)
		s.ids.learn(p.Erc20Address, w.Alias(common.HexToAddress(p.Erc20Address).Bytes()), p.Denom)
	}
	for _, e := range ra {
		a := common.BytesToAddress(e.k)
		s.ids.learn(a.String(), w.Alias(a.Bytes()), "")
	}
	for _, e := range rd {
		s.ids.learn("", "", string(e.k))
	}
	var ps, as, ds []string
	for i, e := range rp {
		p := decoded[i]
		en := "0"
		if p.Enabled {
			en = "1"
		}
		ps = append(ps, fmt.Sprintf("%s:%s:%s:%s:%s", s.ids.render(e.k), w.Alias(common.HexToAddress(p.Erc20Address).Bytes()), tokenSafe(p.Denom), en, ownerStr(p.ContractOwner)))
	}
	for _, e := range ra {
		as = append(as, w.Alias(e.k)+":"+s.ids.render(e.v))
	}
	for _, e := range rd {
		ds = append(ds, tokenSafe(string(e.k))+":"+s.ids.render(e.v))
	}
	return strings.Join(ps, ","), strings.Join(as, ","), strings.Join(ds, ",")
}

func e20B01(b bool) string {
	if b {
		return "1"
	}
	return "0"
}

// modParts: the non-ledger parts of the state, each as one string
func (s *e20Suite) modParts(ctx sdk.Context) map[string]string {
	w := s.w
	out := map[string]string{}
	p := s.k.GetParams(ctx)
	out["en"], out["hk"] = e20B01(p.EnableErc20), e20B01(p.EnableEVMHook)
	seq, _ := w.App.AccountKeeper.GetSequence(ctx, s.mod)
	out["mn"] = fmt.Sprint(seq)
	out["sd"] = e20B01(w.App.BankKeeper.GetParams(ctx).DefaultSendEnabled)
	var so []string
	for _, e := range w.App.BankKeeper.GetAllSendEnabledEntries(ctx) {
		so = append(so, tokenSafe(e.Denom)+":"+e20B01(e.Enabled))
	}
	out["so"] = sortedJoin(so)
	var ms []string
	w.App.BankKeeper.IterateAllDenomMetaData(ctx, func(md banktypes.Metadata) bool {
		ms = append(ms, tokenSafe(md.Base)+":"+metaDigest(md))
		return false
	})
	out["meta"] = sortedJoin(ms)
	out["pairs"], out["bya"], out["byd"] = s.regDump(ctx)
	out["lk"] = s.grpcLookups(ctx)
	tok := s.dump
	var code, minter []string
	for k := range tok {
		switch {
		case strings.HasPrefix(k, "code:"):
			code = append(code, k[5:])
		case strings.HasPrefix(k, "minter:"):
			minter = append(minter, k[7:])
		}
	}
	out["code"], out["minter"] = sortedJoin(code), sortedJoin(minter)
	return out
}

var partOrder = []string{"en", "hk", "mn", "sd", "so", "meta", "pairs", "bya", "byd", "lk", "code", "minter"}

// grpcLookups: what the real query server answers: TokenPairs (listing) and, for every listed pair, TokenPair by its
// denomination and by its contract address ("s": the same pair, "o": another pair, "n": not found / error).
func (s *e20Suite) grpcLookups(ctx sdk.Context) string {
	res, err := s.k.TokenPairs(ctx, &erc20types.QueryTokenPairsRequest{Pagination: &query.PageRequest{Limit: 10000}})
	if err != nil {
		return "error"
	}
	cls := func(p erc20types.TokenPair, tok string) string {
		r, err := s.k.TokenPair(ctx, &erc20types.QueryTokenPairRequest{Token: tok})
		if err != nil {
			return "n"
		}
		if r.TokenPair == p {
			return "s"
		}
		return "o"
	}
	var xs []string
	for _, p := range res.TokenPairs {
		xs = append(xs, fmt.Sprintf("%s:%s:%s:%s", s.alias(common.HexToAddress(p.Erc20Address).Bytes()), tokenSafe(p.Denom), cls(p, p.Denom), cls(p, p.Erc20Address)))
	}
	return strings.Join(xs, ",")
}

// token balances / supplies as maps (diffed entry-wise like the bank ledger)
func (s *e20Suite) tokLedger(ctx sdk.Context) (tb, ts map[string]string) {
	tb, ts = map[string]string{}, map[string]string{}
	for k, v := range s.dump {
		switch {
		case strings.HasPrefix(k, "tb:"):
			tb[k[3:]] = v
		case strings.HasPrefix(k, "ts:"):
			ts[k[3:]] = v
		}
	}
	return
}

func mapFull(m map[string]string) string {
	var xs []string
	for _, k := range sortedKeys(m) {
		xs = append(xs, k+":"+m[k])
	}
	return strings.Join(xs, ",")
}
func mapDelta(pre, post map[string]string) string {
	var xs []string
	for _, k := range sortedKeys(post) {
		if pre[k] != post[k] {
			xs = append(xs, k+":"+post[k])
		}
	}
	for _, k := range sortedKeys(pre) {
		if _, ok := post[k]; !ok {
			xs = append(xs, k+":0")
		}
	}
	return strings.Join(xs, ",")
}

type e20Obs struct {
	parts  map[string]string
	tb, ts map[string]string
	snap   Snap
}

func (s *e20Suite) observe() e20Obs {
	if s.cur != nil {
		return *s.cur
	}
	o := s.observeNow()
	s.cur = &o
	return o
}

func (s *e20Suite) observeNow() e20Obs {
	s.dump = s.tok.DumpTokens(s.w.Ctx)
	tb, ts := s.tokLedger(s.w.Ctx)
	snap := s.w.Snapshot()
	if s.real {
		// the EVM creates an auth account for every contract; the model keeps accounts of message senders only
		for _, a := range s.kaddr {
			delete(snap.Accts, s.alias(a.Bytes()))
		}
		for _, a := range s.tokens {
			delete(snap.Accts, s.alias(a.Bytes()))
		}
	}
	return e20Obs{parts: s.modParts(s.w.Ctx), tb: tb, ts: ts, snap: snap}
}

func (s *e20Suite) sync() {
	o := s.observeNow()
	s.cur = &o
	var xs []string
	for _, k := range partOrder {
		xs = append(xs, k+"="+o.parts[k])
	}
	s.t.Line("S " + strings.Join(xs, " ") + " tb=" + mapFull(o.tb) + " ts=" + mapFull(o.ts) + " " + o.snap.Full())
}

// deliver: World.Deliver for the keeper's messages; one transaction in fifteen fails in a LATER message (a proposal or
// transaction whose second message is invalid): everything this message did — in the bank, the registry and the EVM — is
// discarded with it.
func (s *e20Suite) deliver(f func(ctx sdk.Context) error) Outcome {
	s.later = !s.noLater && s.r.Intn(15) == 0
	hok := false
	out := s.w.Deliver(func(ctx sdk.Context) error {
		err := f(ctx)
		if err == nil && s.later {
			hok = true
			return fmt.Errorf("a later message of the transaction failed")
		}
		return err
	})
	if hok {
		out.Class = "later"
	}
	return out
}

func (s *e20Suite) emit(kind, args string, dev Dev, out Outcome, resp string, pre e20Obs) {
	s.t.seq++
	if s.later {
		args += " later=1"
		s.later = false
	}
	post := s.observeNow()
	s.cur = &post
	var xs []string
	for _, k := range partOrder {
		if pre.parts[k] != post.parts[k] {
			xs = append(xs, k+"="+post.parts[k])
		}
	}
	if d := mapDelta(pre.tb, post.tb); d != "" {
		xs = append(xs, "tb="+d)
	}
	if d := mapDelta(pre.ts, post.ts); d != "" {
		xs = append(xs, "ts="+d)
	}
	devs := "-"
	if dev.At > 0 && !s.tok.Fired() {
		dev = Dev{}
	}
	if dev.At > 0 {
		devs = fmt.Sprintf("%d:%s", dev.At, dev.Kind)
	}
	rec := s.tok.Recording()
	if s.real && kind == "tx" {
		rec = "?" // the hook inside a real EthereumTx runs on the application's own keeper: its EVM calls are not recorded
	}
	line := fmt.Sprintf("O %d %s %s dev=%s evm=%s => %s %s | %s %s", s.t.seq, kind, args, devs, rec, out.String(), resp, strings.Join(xs, " "), Delta(pre.snap, post.snap))
	s.t.Line(line)
	s.stat[kind+":"+out.String()]++
	if dev.At > 0 {
		s.stat["dev:"+dev.Kind+":"+map[bool]string{true: "ok", false: "rej"}[out.OK]]++
	}
	if out.Class == "panic" {
		m := out.Err
		if len(m) > 40 {
			m = m[:40]
		}
		s.stat["panicmsg:"+kind+":"+m]++
	}
}

// ---------- generators ----------

func (s *e20Suite) amountUpTo(bal sdkmath.Int) sdkmath.Int {
	r := s.r
	if !bal.IsPositive() {
		return sdkmath.NewInt(int64(1 + r.Intn(5)))
	}
	if bal.BigInt().BitLen() >= 255 {
		// next to the 256-bit limit of sdkmath.Int: no room for the "one more than the balance" variants
		if r.Intn(3) == 0 {
			return bal
		}
		return r.Big(250).AddRaw(1)
	}
	switch r.Intn(40) {
	case 0, 1:
		return bal
	case 2, 3:
		return bal.AddRaw(1)
	case 4, 5:
		return sdkmath.OneInt()
	case 6:
		return sdkmath.ZeroInt()
	case 7:
		return sdkmath.NewInt(-1)
	case 8:
		return pow2(255)
	case 9, 10, 11, 12, 13:
		return sdkmath.NewInt(int64(1 + r.Intn(5)))
	default:
		v := r.Big(250).Mod(bal).AddRaw(1)
		if r.Intn(2) == 0 && v.GT(sdkmath.NewInt(1000)) {
			v = v.QuoRaw(int64(1 + r.Intn(1000)))
		}
		return v
	}
}

// deviations by the position of the call in the operation.  A conversion makes four calls: 1 code lookup, 2 balance
// query, 3 the committed token call, 4 balance query; a coin registration one (create); an ERC-20 registration three
// (name, symbol, decimals); the hook one burn per converting log.
var (
	devAny    = []string{"err", "revert"}
	devBal    = []string{"err", "revert", "bal+1", "bal-1", "balnil", "balbad"}
	devCommit = []string{"err", "revert", "revertmoved", "gas", "amt+1", "amt-1", "amtx2", "neg", "neg", "noop", "false", "falsemoved", "retempty", "retbad", "ret2", "approval", "approvalfirst", "approval1", "approval4", "notopics", "otherlog", "credit"}
)

func (s *e20Suite) pickDev(kind string, num, den int) Dev {
	r := s.r
	if !r.Chance(num, den) || s.honest {
		return Dev{}
	}
	pick := func(ks []string) string { return ks[r.Intn(len(ks))] }
	switch kind {
	case "cc", "ce":
		switch r.Intn(10) {
		case 0:
			return Dev{At: 1, Kind: "nocode"}
		case 1, 2:
			return Dev{At: 2, Kind: pick(devBal)}
		case 3, 4:
			return Dev{At: 4, Kind: pick(devBal)}
		default:
			return Dev{At: 3, Kind: pick(devCommit)}
		}
	case "rc":
		return Dev{At: 1, Kind: pick([]string{"err", "revert", "gas"})}
	case "re":
		return Dev{At: 1 + r.Intn(3), Kind: pick([]string{"err", "revert", "qnil"})}
	default: // hook, tx
		return Dev{At: 1 + r.Intn(2), Kind: pick([]string{"err", "revert", "gas", "noop", "amt-1"})}
	}
}

func (s *e20Suite) user() sdk.AccAddress { return s.w.Users[s.r.Intn(len(s.w.Users))] }

// bech32 forms
func (s *e20Suite) bech(a sdk.AccAddress, okBias int) (string, string) {
	form := 0
	if s.r.Intn(100) >= okBias {
		form = 1 + s.r.Intn(3)
	}
	return s.w.AddrForms(a, form)
}

// hex forms: valid spellings of the same 20 bytes, or an invalid string
func (s *e20Suite) hexForm(a []byte, okBias int) (string, string) {
	r := s.r
	addr := common.BytesToAddress(a)
	if r.Intn(100) < okBias {
		switch r.Intn(5) {
		case 0:
			return addr.Hex(), "H" + s.alias(a)
		case 1:
			return strings.ToLower(addr.Hex()), "H" + s.alias(a)
		case 2:
			return hex.EncodeToString(a), "H" + s.alias(a)
		case 3:
			return "0X" + strings.ToUpper(hex.EncodeToString(a)), "H" + s.alias(a)
		default:
			return addr.Hex(), "H" + s.alias(a)
		}
	}
	switch r.Intn(4) {
	case 0:
		return "0x1234", "HX"
	case 1:
		return "", "HX"
	case 2:
		return "0x" + strings.Repeat("g", 40), "HX"
	default:
		return addr.Hex() + "00", "HX"
	}
}

func (s *e20Suite) receiverFor(sender sdk.AccAddress) []byte {
	r := s.r
	switch r.Intn(30) {
	case 0, 1, 2, 3, 8, 9:
		return s.user()
	case 4:
		names := ModuleNames()
		return authtypes.NewModuleAddress(names[r.Intn(len(names))])
	case 5:
		return s.mod
	case 6:
		return make([]byte, 20)
	case 7:
		return s.fresh[r.Intn(len(s.fresh))]
	default:
		return sender
	}
}

func (s *e20Suite) pairs() []erc20types.TokenPair { return s.k.GetTokenPairs(s.w.Ctx) }

func (s *e20Suite) pickPair(kind int) (erc20types.TokenPair, bool) {
	ps := s.pairs()
	var sel []erc20types.TokenPair
	for _, p := range ps {
		if kind == 0 || (kind == 1 && p.IsNativeCoin()) || (kind == 2 && p.IsNativeERC20()) {
			sel = append(sel, p)
		}
	}
	if len(sel) == 0 {
		return erc20types.TokenPair{}, false
	}
	return sel[s.r.Intn(len(sel))], true
}

func (s *e20Suite) opConvertCoin() {
	r := s.r
	sender := s.user()
	denom := s.coins[r.Intn(len(s.coins))]
	if p, ok := s.pickPair(0); ok && r.Intn(25) != 0 {
		denom = p.Denom
		// prefer a sender that holds the coin
		for i := 0; i < 4 && !s.w.App.BankKeeper.GetBalance(s.w.Ctx, sender, denom).IsPositive(); i++ {
			sender = s.user()
		}
	}
	switch r.Intn(80) {
	case 0:
		denom = "ab"
	case 1:
		denom = "ibc"
	case 2:
		denom = "ibc/zz"
	case 3:
		denom = "erc20/0x1234"
	case 4:
		denom = "ibc/" + strings.Repeat("A", 62)
	case 5, 6, 7:
		denom = s.hexDen[r.Intn(len(s.hexDen))]
	case 8:
		denom = "erc20/" + s.tokens[r.Intn(nTokens)].String()
	case 9:
		denom = "stake"
	case 10, 11, 12:
		denom = s.aliasDen[r.Intn(len(s.aliasDen))]
	}
	bal := sdkmath.ZeroInt()
	if sdk.ValidateDenom(denom) == nil {
		bal = s.w.App.BankKeeper.GetBalance(s.w.Ctx, sender, denom).Amount
	}
	amt := s.amountUpTo(bal)
	recv := s.receiverFor(sender)
	recvStr, recvTok := s.hexForm(recv, 98)
	senderStr, senderTok := s.bech(sender, 98)
	dev := s.pickDev("cc", 1, 3)
	if dev.At > 0 && r.Intn(4) != 0 {
		// the deviation should be what decides: an otherwise valid conversion of an enabled pair to oneself
		if p, ok := s.pickEnabled(); ok {
			denom = p.Denom
			for i := 0; i < 6 && !s.w.App.BankKeeper.GetBalance(s.w.Ctx, sender, denom).IsPositive(); i++ {
				sender = s.user()
			}
			if bal := s.w.App.BankKeeper.GetBalance(s.w.Ctx, sender, denom).Amount; bal.IsPositive() {
				amt = r.Big(250).Mod(bal).AddRaw(1)
				recvStr, recvTok = s.hexOf(sender)
				senderStr, senderTok = s.bechOf(sender)
			}
		}
	}
	s.doCC(denom, amt, recvStr, recvTok, senderStr, senderTok, dev)
}

func (s *e20Suite) pickEnabled() (erc20types.TokenPair, bool) {
	var sel []erc20types.TokenPair
	for _, p := range s.pairs() {
		if p.Enabled {
			sel = append(sel, p)
		}
	}
	if len(sel) == 0 {
		return erc20types.TokenPair{}, false
	}
	return sel[s.r.Intn(len(sel))], true
}

func (s *e20Suite) doCC(denom string, amt sdkmath.Int, recvStr, recvTok, senderStr, senderTok string, dev Dev) {
	da := "-"
	if common.IsHexAddress(denom) {
		da = s.alias(common.HexToAddress(denom).Bytes())
	}
	msg := &erc20types.MsgConvertCoin{Coin: sdk.Coin{Denom: denom, Amount: amt}, Receiver: recvStr, Sender: senderStr}
	s.tok.Reset(dev)
	pre := s.observe()
	resp := ""
	out := s.deliver(func(ctx sdk.Context) error {
		res, err := s.k.ConvertCoin(ctx, msg)
		if err == nil {
			if res == nil {
				resp = "resp=deleted"
			} else {
				resp = "resp=converted"
			}
		}
		return err
	})
	if !out.OK {
		resp = ""
	}
	s.emit("cc", fmt.Sprintf("d=%s da=%s amt=%s recv=%s sender=%s", tokenSafe(denom), da, amt, recvTok, senderTok), dev, out, resp, pre)
}

func (s *e20Suite) opConvertERC20() {
	r := s.r
	var contract common.Address
	sender := s.user()
	bal := big.NewInt(0)
	if p, ok := s.pickPair(0); ok && r.Intn(12) != 0 {
		contract = p.GetERC20Contract()
		for i := 0; i < 4; i++ {
			bal = s.tok.Bal(s.w.Ctx, contract, common.BytesToAddress(sender))
			if bal.Sign() > 0 {
				break
			}
			sender = s.user()
		}
	} else {
		switch r.Intn(3) {
		case 0:
			contract = s.tokens[r.Intn(nTokens)]
		case 1:
			contract = s.kaddr[r.Intn(8)]
		default:
			contract = common.BytesToAddress(s.user())
		}
	}
	var senderB []byte = sender
	switch r.Intn(30) {
	case 0:
		senderB = s.fresh[r.Intn(len(s.fresh))]
	case 1:
		senderB = s.mod
	}
	amt := s.amountUpTo(sdkmath.NewIntFromBigInt(bal))
	recv := s.receiverFor(sender)
	recvStr, recvTok := s.bech(recv, 98)
	senderStr, senderTok := s.hexForm(senderB, 98)
	cStr, cTok := s.hexForm(contract.Bytes(), 98)
	dev := s.pickDev("ce", 1, 3)
	if dev.At > 0 && r.Intn(4) != 0 {
		if p, ok := s.pickEnabled(); ok {
			c := p.GetERC20Contract()
			for i := 0; i < 6 && s.tok.Bal(s.w.Ctx, c, common.BytesToAddress(sender)).Sign() == 0; i++ {
				sender = s.user()
			}
			if b := s.tok.Bal(s.w.Ctx, c, common.BytesToAddress(sender)); b.Sign() > 0 {
				amt = r.Big(250).Mod(sdkmath.NewIntFromBigInt(b)).AddRaw(1)
				cStr, cTok = s.hexOf(c.Bytes())
				recvStr, recvTok = s.bechOf(sender)
				senderStr, senderTok = s.hexOf(sender)
			}
		}
	}
	s.doCE(cStr, cTok, amt, recvStr, recvTok, senderStr, senderTok, dev)
}

func (s *e20Suite) doCE(cStr, cTok string, amt sdkmath.Int, recvStr, recvTok, senderStr, senderTok string, dev Dev) {
	msg := &erc20types.MsgConvertERC20{ContractAddress: cStr, Amount: amt, Receiver: recvStr, Sender: senderStr}
	s.tok.Reset(dev)
	pre := s.observe()
	resp := ""
	out := s.deliver(func(ctx sdk.Context) error {
		res, err := s.k.ConvertERC20(ctx, msg)
		if err == nil {
			if res == nil {
				resp = "resp=deleted"
			} else {
				resp = "resp=converted"
			}
		}
		return err
	})
	if !out.OK {
		resp = ""
	}
	s.emit("ce", fmt.Sprintf("c=%s amt=%s recv=%s sender=%s", cTok, amt, recvTok, senderTok), dev, out, resp, pre)
}

func (s *e20Suite) metadata(base string, variant int) banktypes.Metadata {
	disp := "disp" + strings.NewReplacer("/", "", ":", "", ".", "", "_", "", "-", "").Replace(base)
	if len(disp) > 60 {
		disp = disp[:60]
	}
	return banktypes.Metadata{
		Description: fmt.Sprintf("coin %s v%d", base, variant),
		Base:        base, Display: disp, Name: "Coin " + base, Symbol: "SYM",
		DenomUnits: []*banktypes.DenomUnit{{Denom: base, Exponent: 0}, {Denom: disp, Exponent: 18}},
	}
}

func (s *e20Suite) authority() (string, string) {
	if s.r.Intn(25) == 0 {
		return s.user().String(), "0"
	}
	return s.gov, "1"
}

func (s *e20Suite) opRegisterCoin(force bool) {
	r := s.r
	var base string
	reg := map[string]bool{}
	for _, p := range s.pairs() {
		reg[p.Denom] = true
	}
	var free []string
	for _, d := range append(append([]string{}, s.coins[:nRegCoins]...), s.extra...) {
		if !reg[d] {
			free = append(free, d)
		}
	}
	if len(free) == 0 && !force && r.Intn(3) != 0 {
		s.opToggle()
		return
	}
	switch {
	case len(free) > 0 && (force || r.Intn(4) != 0):
		base = free[r.Intn(len(free))]
	default:
		switch r.Intn(8) {
		case 0:
			base = "nosupply"
		case 1:
			base = "aCANTOx"
		case 2, 3:
			base = s.hexDen[r.Intn(len(s.hexDen))]
		case 4:
			base = s.coins[len(s.coins)-1] // erc20/<last token> (in circulation only in the non-honest suite): cross-registration of an ERC-20's coin representation as a coin
		default:
			base = s.coins[r.Intn(nRegCoins)]
		}
	}
	variant := s.metaV[base]
	if !force && r.Intn(8) == 0 {
		variant++ // metadata differing from a stored one
	}
	md := s.metadata(base, variant)
	authStr, authTok := s.authority()
	if force {
		authStr, authTok = s.gov, "1"
	}
	dev := Dev{}
	if !force {
		dev = s.pickDev("rc", 1, 6)
	}
	s.noLater = force
	defer func() { s.noLater = false }()
	s.tok.Reset(dev)
	pre := s.observe()
	out := s.deliver(func(ctx sdk.Context) error {
		_, err := s.k.RegisterCoinProposal(ctx, &erc20types.MsgRegisterCoin{Authority: authStr, Title: "t", Description: "d", Metadata: md})
		return err
	})
	s.emit("rc", fmt.Sprintf("auth=%s base=%s dg=%s", authTok, tokenSafe(base), metaDigest(md)), dev, out, "", pre)
}

func (s *e20Suite) opRegisterERC20(force bool) {
	r := s.r
	reg := map[common.Address]bool{}
	for _, p := range s.pairs() {
		reg[p.GetERC20Contract()] = true
	}
	var free []common.Address
	for _, t := range s.tokens {
		if !reg[t] && s.tok.HasCode(s.w.Ctx, t) && (!s.tok.HasBadMeta(s.w.Ctx, t) || r.Intn(6) == 0) {
			free = append(free, t)
		}
	}
	var c common.Address
	if len(free) == 0 && !force && r.Intn(8) != 0 {
		s.opDeploy()
		return
	}
	switch {
	case len(free) > 0 && (force || r.Intn(4) != 0):
		c = free[r.Intn(len(free))]
	default:
		switch r.Intn(5) {
		case 0:
			c = s.kaddr[r.Intn(4)] // a module-deployed contract (registered) or a future CREATE address (no code)
		case 1:
			c = common.BytesToAddress(s.user()) // no code
		default:
			c = s.tokens[r.Intn(nTokens)]
		}
	}
	mo := "1"
	if s.tok.HasBadMeta(s.w.Ctx, c) {
		mo = "0"
	}
	authStr, authTok := s.authority()
	if force {
		authStr, authTok = s.gov, "1"
	}
	dev := Dev{}
	if !force {
		dev = s.pickDev("re", 1, 6)
	}
	s.noLater = force
	defer func() { s.noLater = false }()
	s.tok.Reset(dev)
	pre := s.observe()
	cs := c.Hex()
	if r.Intn(4) == 0 {
		cs = strings.ToLower(cs)
	}
	out := s.deliver(func(ctx sdk.Context) error {
		_, err := s.k.RegisterERC20Proposal(ctx, &erc20types.MsgRegisterERC20{Authority: authStr, Title: "t", Description: "d", Erc20Address: cs})
		return err
	})
	s.emit("re", fmt.Sprintf("auth=%s c=%s mo=%s", authTok, s.alias(c.Bytes()), mo), dev, out, "", pre)
}

func (s *e20Suite) opToggle() {
	r := s.r
	var tok string
	p, ok := s.pickPair(0)
	var off []erc20types.TokenPair
	for _, q := range s.pairs() {
		if !q.Enabled {
			off = append(off, q)
		}
	}
	if len(off) > 0 && r.Intn(3) != 0 {
		p, ok = off[r.Intn(len(off))], true
	}
	if ok && r.Intn(8) != 0 {
		if r.Intn(2) == 0 {
			tok = p.Denom
		} else {
			tok, _ = s.hexForm(p.GetERC20Contract().Bytes(), 100)
		}
	} else {
		switch r.Intn(5) {
		case 0:
			tok = s.coins[r.Intn(len(s.coins))]
		case 1:
			tok = s.tokens[r.Intn(nTokens)].Hex()
		case 2:
			tok = s.hexDen[r.Intn(len(s.hexDen))]
		case 3:
			tok = ""
		default:
			tok = "nosuchdenom"
		}
	}
	authStr, authTok := s.authority()
	s.doToggle(tok, authStr, authTok)
}

func (s *e20Suite) doToggle(tok, authStr, authTok string) {
	ta := "-"
	if common.IsHexAddress(tok) {
		ta = s.alias(common.HexToAddress(tok).Bytes())
	}
	s.tok.Reset(Dev{})
	pre := s.observe()
	out := s.deliver(func(ctx sdk.Context) error {
		_, err := s.k.ToggleTokenConversionProposal(ctx, &erc20types.MsgToggleTokenConversion{Authority: authStr, Title: "t", Description: "d", Token: tok})
		return err
	})
	s.emit("tg", fmt.Sprintf("auth=%s t=%s ta=%s", authTok, tokenSafe(tok), ta), Dev{}, out, "", pre)
}

func (s *e20Suite) opParams() {
	r := s.r
	cur := s.k.GetParams(s.w.Ctx)
	p := erc20types.Params{EnableErc20: r.Intn(8) != 0, EnableEVMHook: r.Intn(5) != 0}
	if !cur.EnableErc20 || !cur.EnableEVMHook {
		// mostly switch back on
		p = erc20types.Params{EnableErc20: r.Intn(12) != 0, EnableEVMHook: r.Intn(12) != 0}
	}
	authStr, authTok := s.authority()
	s.doParams(p, authStr, authTok)
}

func (s *e20Suite) doParams(p erc20types.Params, authStr, authTok string) {
	s.tok.Reset(Dev{})
	pre := s.observe()
	out := s.deliver(func(ctx sdk.Context) error {
		_, err := s.k.UpdateParams(ctx, &erc20types.MsgUpdateParams{Authority: authStr, Params: p})
		return err
	})
	s.emit("up", fmt.Sprintf("auth=%s en=%s hk=%s", authTok, e20B01(p.EnableErc20), e20B01(p.EnableEVMHook)), Dev{}, out, "", pre)
}

func e20LogTok(s *e20Suite, l *ethtypes.Log) string {
	isT := "0"
	if len(l.Topics) > 0 && l.Topics[0] == transferSig {
		isT = "1"
	}
	from, to := "-", "-"
	if len(l.Topics) > 1 {
		from = s.alias(common.BytesToAddress(l.Topics[1].Bytes()).Bytes())
	}
	if len(l.Topics) > 2 {
		to = s.alias(common.BytesToAddress(l.Topics[2].Bytes()).Bytes())
	}
	// the amount is what the real ABI decoder makes of the data under the Transfer layout ("-": it refuses the data); the raw
	// data goes on the trace too: the driver decodes it with the Lean model of the contract ABI and demands the same verdict
	amt := "-"
	if vals, err := erc20ABI().Unpack("Transfer", l.Data); err == nil && len(vals) > 0 {
		if v, ok := vals[0].(*big.Int); ok {
			amt = v.String()
		}
	}
	return fmt.Sprintf("%s/%d/%s/%s/%s/%s/%s", s.alias(l.Address.Bytes()), len(l.Topics), isT, from, to, amt, hex.EncodeToString(l.Data))
}

// opHook: PostTxProcessing called directly with a constructed (possibly forged) receipt
func (s *e20Suite) opHook() {
	r := s.r
	n := 1 + r.Intn(3)
	var logs []*ethtypes.Log
	for i := 0; i < n; i++ {
		var emitter common.Address
		if p, ok := s.pickPair(0); ok && r.Intn(8) != 0 {
			emitter = p.GetERC20Contract()
		} else {
			emitter = s.tokens[r.Intn(nTokens)]
		}
		var from []byte = s.user()
		switch r.Intn(12) {
		case 0:
			names := ModuleNames()
			from = authtypes.NewModuleAddress(names[r.Intn(len(names))])
		case 1:
			from = s.fresh[r.Intn(len(s.fresh))]
		case 2:
			from = s.mod
		}
		var to []byte = s.mod
		if r.Intn(8) == 0 {
			to = s.user()
		}
		modBal := s.tok.Bal(s.w.Ctx, emitter, common.BytesToAddress(s.mod))
		amt := s.amountUpTo(sdkmath.NewIntFromBigInt(modBal))
		if amt.IsNegative() {
			amt = sdkmath.ZeroInt()
		}
		if r.Intn(30) == 0 {
			amt = sdkmath.NewIntFromBigInt(new(big.Int).Sub(two256, big.NewInt(1)))
		}
		topics := []common.Hash{transferSig, common.BytesToHash(from), common.BytesToHash(to)}
		data := word(amt.BigInt())
		switch r.Intn(25) {
		case 0:
			topics = topics[:2]
		case 1:
			topics[0] = approvalSig
		case 2:
			topics[0] = otherSig
		case 3:
			data = data[:31]
		case 4:
			topics = nil
		case 5:
			data = append(data, word(big.NewInt(7))...)
		case 6: // trailing bytes that do not fill a word
			data = append(data, make([]byte, 1+r.Intn(31))...)
		case 7:
			data = nil
		}
		logs = append(logs, &ethtypes.Log{Address: emitter, Topics: topics, Data: data})
	}
	var lt []string
	for _, l := range logs {
		lt = append(lt, e20LogTok(s, l))
	}
	dev := s.pickDev("hook", 1, 5)
	s.tok.Reset(dev)
	pre := s.observe()
	out := s.w.Deliver(func(ctx sdk.Context) error {
		msg := ethtypes.NewMessage(common.BytesToAddress(s.user()), &logs[0].Address, 0, big.NewInt(0), 100000, big.NewInt(0), big.NewInt(0), big.NewInt(0), nil, nil, false)
		return s.hooks.PostTxProcessing(ctx, msg, &ethtypes.Receipt{Logs: logs})
	})
	s.emit("hook", "logs="+strings.Join(lt, ","), dev, out, "", pre)
}

// opTx: what an Ethereum transaction of a token holder does: the token call, then the hook on the receipt's logs
func (s *e20Suite) opTx() {
	r := s.r
	p, ok := s.pickPair(0)
	var c common.Address
	if ok && r.Intn(10) != 0 {
		c = p.GetERC20Contract()
	} else {
		c = s.tokens[r.Intn(nTokens)]
	}
	holder := s.user()
	for i := 0; i < 4 && s.tok.Bal(s.w.Ctx, c, common.BytesToAddress(holder)).Sign() == 0; i++ {
		holder = s.user()
	}
	bal := s.tok.Bal(s.w.Ctx, c, common.BytesToAddress(holder))
	amt := s.amountUpTo(sdkmath.NewIntFromBigInt(bal))
	if amt.IsNegative() {
		amt = sdkmath.ZeroInt()
	}
	call := "xfer"
	var to []byte = s.mod
	switch r.Intn(10) {
	case 0, 1:
		to = s.user()
	case 2:
		call = "burn"
		to = make([]byte, 20)
	case 3:
		to = make([]byte, 20)
	case 4:
		// an allowance, not a transfer: mostly for the module address itself (the Approval log has the Transfer log's shape)
		call = "approve"
		switch r.Intn(6) {
		case 0:
			to = s.user()
		case 1:
			to = make([]byte, 20)
		}
		if r.Intn(3) == 0 {
			// an allowance may exceed the balance (kept within 255 bits: sdkmath.Int panics beyond 256)
			if v := new(big.Int).Mul(amt.BigInt(), big.NewInt(int64(1+r.Intn(5)))); v.BitLen() <= 255 {
				amt = sdkmath.NewIntFromBigInt(v)
			}
		}
	}
	s.doTx(c, holder, call, to, amt, s.pickDev("tx", 1, 8))
}

// opTxBatch: ONE transaction in which the holder makes several token calls (a batch payout, a router): the calls run one
// after the other, then the hook sees the whole receipt. Scripted side only (honest script, no deviation).
func (s *e20Suite) opTxBatch() {
	r := s.r
	p, ok := s.pickPair(0)
	var c common.Address
	if ok && r.Intn(10) != 0 {
		c = p.GetERC20Contract()
	} else {
		c = s.tokens[r.Intn(nTokens)]
	}
	holder := s.user()
	for i := 0; i < 4 && s.tok.Bal(s.w.Ctx, c, common.BytesToAddress(holder)).Sign() == 0; i++ {
		holder = s.user()
	}
	bal := sdkmath.NewIntFromBigInt(s.tok.Bal(s.w.Ctx, c, common.BytesToAddress(holder)))
	n := 2 + r.Intn(2)
	type call struct {
		kind string
		to   []byte
		amt  sdkmath.Int
	}
	var calls []call
	var toks []string
	left := bal
	for i := 0; i < n; i++ {
		amt := s.amountUpTo(left.QuoRaw(int64(n - i)))
		if amt.IsNegative() {
			amt = sdkmath.ZeroInt()
		}
		if r.Intn(12) == 0 {
			amt = left.AddRaw(1) // one call of the batch overdraws: the whole transaction reverts
		}
		cl := call{kind: "xfer", to: s.mod, amt: amt}
		switch r.Intn(8) {
		case 0:
			cl.to = s.user()
		case 1:
			cl.kind = "burn"
			cl.to = make([]byte, 20)
		}
		calls = append(calls, cl)
		if cl.kind == "burn" {
			toks = append(toks, "burn:"+amt.String())
		} else {
			toks = append(toks, "xfer:"+s.alias(cl.to)+":"+amt.String())
		}
		if left.GTE(amt) {
			left = left.Sub(amt)
		}
	}
	s.tok.Reset(Dev{})
	pre := s.observe()
	side := s.tok.(*scriptSide)
	out := s.w.Deliver(func(ctx sdk.Context) error {
		var logs []*ethtypes.Log
		for _, cl := range calls {
			l, rev := side.HolderCall(ctx, c, common.BytesToAddress(holder), cl.kind, common.BytesToAddress(cl.to), cl.amt.BigInt())
			if rev {
				return fmt.Errorf("execution reverted")
			}
			logs = append(logs, l...)
		}
		msg := ethtypes.NewMessage(common.BytesToAddress(holder), &c, 0, big.NewInt(0), 100000, big.NewInt(0), big.NewInt(0), big.NewInt(0), nil, nil, false)
		return s.hooks.PostTxProcessing(ctx, msg, &ethtypes.Receipt{Logs: logs})
	})
	s.emit("txb", fmt.Sprintf("c=%s holder=%s calls=%s", s.alias(c.Bytes()), s.alias(holder), strings.Join(toks, ",")), Dev{}, out, "", pre)
}

func (s *e20Suite) doTx(c common.Address, holder sdk.AccAddress, call string, to []byte, amt sdkmath.Int, dev Dev) {
	s.tok.Reset(dev)
	pre := s.observe()
	out := s.w.Deliver(func(ctx sdk.Context) error {
		return s.tok.HolderTx(ctx, c, common.BytesToAddress(holder), call, common.BytesToAddress(to), amt.BigInt())
	})
	s.emit("tx", fmt.Sprintf("c=%s holder=%s call=%s to=%s amt=%s", s.alias(c.Bytes()), s.alias(holder), call, s.alias(to), amt), dev, out, "", pre)
}

func (s *e20Suite) opSend() {
	r := s.r
	src := s.user()
	var dst sdk.AccAddress = s.user()
	if r.Intn(6) == 0 {
		dst = s.fresh[r.Intn(len(s.fresh))]
	}
	d := s.coins[r.Intn(len(s.coins))]
	if ps := s.pairs(); len(ps) > 0 && r.Intn(2) == 0 {
		d = ps[r.Intn(len(ps))].Denom
	}
	amt := s.amountUpTo(s.w.App.BankKeeper.GetBalance(s.w.Ctx, src, d).Amount)
	if !amt.IsPositive() {
		amt = sdkmath.OneInt()
	}
	s.tok.Reset(Dev{})
	pre := s.observe()
	out := s.w.Deliver(func(ctx sdk.Context) error {
		return s.w.App.BankKeeper.SendCoins(ctx, src, dst, sdk.NewCoins(sdk.NewCoin(d, amt)))
	})
	s.emit("send", fmt.Sprintf("src=%s dst=%s d=%s amt=%s", s.w.Alias(src), s.w.Alias(dst), tokenSafe(d), amt), Dev{}, out, "", pre)
}

func (s *e20Suite) opSendEnabled() {
	r := s.r
	s.tok.Reset(Dev{})
	pre := s.observe()
	if r.Intn(4) == 0 {
		v := r.Intn(3) != 0
		out := s.w.Deliver(func(ctx sdk.Context) error {
			p := s.w.App.BankKeeper.GetParams(ctx)
			p.DefaultSendEnabled = v
			return s.w.App.BankKeeper.SetParams(ctx, p)
		})
		s.emit("ssd", "v="+e20B01(v), Dev{}, out, "", pre)
		return
	}
	d := s.coins[r.Intn(len(s.coins))]
	if ps := s.pairs(); len(ps) > 0 && r.Intn(4) != 0 {
		d = ps[r.Intn(len(ps))].Denom
	}
	v := r.Intn(3) != 0
	s.doSSE(d, v)
}

func (s *e20Suite) doSSE(d string, v bool) {
	s.tok.Reset(Dev{})
	pre := s.observe()
	out := s.w.Deliver(func(ctx sdk.Context) error {
		s.w.App.BankKeeper.SetSendEnabled(ctx, d, v)
		return nil
	})
	s.emit("sse", fmt.Sprintf("d=%s v=%s", tokenSafe(d), e20B01(v)), Dev{}, out, "", pre)
}

func (s *e20Suite) hexOf(a []byte) (string, string) { return common.BytesToAddress(a).Hex(), "H" + s.alias(a) }
func (s *e20Suite) bechOf(a []byte) (string, string) {
	return sdk.AccAddress(a).String(), "L" + s.alias(a)
}

// opRoundtrip: convert an amount one way and straight back (honest token, no deviation), self or via a third party
func (s *e20Suite) opRoundtrip() {
	s.noLater = true // a systematic sequence: every step counts
	defer func() { s.noLater = false }()
	r := s.r
	p, ok := s.pickPair(0)
	if !ok {
		return
	}
	c := p.GetERC20Contract()
	u, v := s.user(), s.user()
	if r.Intn(2) == 0 {
		v = u
	}
	cStr, cTok := s.hexOf(c.Bytes())
	uh, uht := s.hexOf(u)
	ub, ubt := s.bechOf(u)
	vh, vht := s.hexOf(v)
	vb, vbt := s.bechOf(v)
	if r.Intn(2) == 0 {
		bal := s.w.App.BankKeeper.GetBalance(s.w.Ctx, u, p.Denom).Amount
		if !bal.IsPositive() {
			return
		}
		amt := r.Big(250).Mod(bal).AddRaw(1)
		s.doCC(p.Denom, amt, vh, vht, ub, ubt, Dev{})
		s.doCE(cStr, cTok, amt, ub, ubt, vh, vht, Dev{})
	} else {
		bal := s.tok.Bal(s.w.Ctx, c, common.BytesToAddress(u))
		if bal.Sign() <= 0 {
			return
		}
		amt := r.Big(250).Mod(sdkmath.NewIntFromBigInt(bal)).AddRaw(1)
		s.doCE(cStr, cTok, amt, vb, vbt, uh, uht, Dev{})
		s.doCC(p.Denom, amt, uh, uht, vb, vbt, Dev{})
	}
}

// sweep: the C14 table.  For one pair of each kind: all eight settings of (module, hook, pair) switches, set by real
// messages; both message routes to every kind of receiver (self, a third party with bank sends of the coin enabled and
// disabled, every module account); the hook route (transfer to the module address) and an ordinary transfer.
func (s *e20Suite) sweep() {
	s.noLater = true // a systematic sequence: every step counts
	defer func() { s.noLater = false }()
	r := s.r
	for kind := 1; kind <= 2; kind++ {
		p, ok := s.pickPair(kind)
		if !ok {
			continue
		}
		c := p.GetERC20Contract()
		cStr, cTok := s.hexOf(c.Bytes())
		u, third := s.w.Users[0], s.w.Users[1]
		uh, uht := s.hexOf(u)
		ub, ubt := s.bechOf(u)
		// make sure u holds both coins and tokens of the pair
		s.doParams(erc20types.Params{EnableErc20: true, EnableEVMHook: true}, s.gov, "1")
		small := sdkmath.NewInt(int64(1000 + r.Intn(1000)))
		if kind == 1 {
			s.doCC(p.Denom, small, uh, uht, ub, ubt, Dev{})
		} else {
			s.doCE(cStr, cTok, small, ub, ubt, uh, uht, Dev{})
		}
		for combo := 0; combo < 8; combo++ {
			en, hk, pe := combo&1 != 0, combo&2 != 0, combo&4 != 0
			s.doParams(erc20types.Params{EnableErc20: en, EnableEVMHook: hk}, s.gov, "1")
			if cur, _ := s.k.GetTokenPair(s.w.Ctx, p.GetID()); cur.Enabled != pe {
				if r.Intn(2) == 0 {
					s.doToggle(p.Denom, s.gov, "1")
				} else {
					s.doToggle(cStr, s.gov, "1")
				}
			}
			type rc struct {
				a  []byte
				se bool
			}
			recvs := []rc{{u, true}, {third, true}, {third, false}}
			for _, n := range ModuleNames() {
				recvs = append(recvs, rc{authtypes.NewModuleAddress(n), true})
			}
			for _, rv := range recvs {
				if s.w.App.BankKeeper.IsSendEnabledCoin(s.w.Ctx, sdk.Coin{Denom: p.Denom, Amount: sdkmath.OneInt()}) != rv.se {
					s.doSSE(p.Denom, rv.se)
				}
				amt := sdkmath.NewInt(int64(1 + r.Intn(5)))
				rh, rht := s.hexOf(rv.a)
				rb, rbt := s.bechOf(rv.a)
				s.doCC(p.Denom, amt, rh, rht, ub, ubt, Dev{})
				s.doCE(cStr, cTok, amt, rb, rbt, uh, uht, Dev{})
			}
			s.doSSE(p.Denom, true)
			s.doTx(c, u, "xfer", s.mod, sdkmath.NewInt(int64(1+r.Intn(5))), Dev{})
			s.doTx(c, u, "xfer", third, sdkmath.NewInt(int64(1+r.Intn(5))), Dev{})
		}
		s.doParams(erc20types.Params{EnableErc20: true, EnableEVMHook: true}, s.gov, "1")
		if cur, _ := s.k.GetTokenPair(s.w.Ctx, p.GetID()); !cur.Enabled {
			s.doToggle(p.Denom, s.gov, "1")
		}
	}
}

// opSelfdestruct: the contract's account loses its code (script: models SELFDESTRUCT); token-side only
func (s *e20Suite) opSelfdestruct() {
	p, ok := s.pickPair(0)
	if !ok {
		return
	}
	c := p.GetERC20Contract()
	s.tok.Reset(Dev{})
	pre := s.observe()
	out := s.w.Deliver(func(ctx sdk.Context) error {
		s.evm.SetCode(ctx, c, false)
		return nil
	})
	s.emit("sd", "c="+s.alias(c.Bytes()), Dev{}, out, "", pre)
}

// opRedeploy: somebody deploys an honest token at a token address that has no code (t3 at first; destroyed ones later)
func (s *e20Suite) opDeploy() {
	r := s.r
	c := s.tokens[r.Intn(nTokens)]
	var empty []common.Address
	for _, t := range s.tokens {
		if !s.tok.HasCode(s.w.Ctx, t) {
			empty = append(empty, t)
		}
	}
	if len(empty) == 0 && r.Intn(4) != 0 {
		s.opTx()
		return
	}
	if len(empty) > 0 && r.Intn(6) != 0 {
		c = empty[r.Intn(len(empty))]
	}
	dep := s.user()
	sup := s.amountUpTo(pow10(12))
	if !sup.IsPositive() {
		sup = sdkmath.NewInt(1000)
	}
	bad := r.Intn(4) == 0
	if s.real {
		// on the real EVM a token address is CREATE(user_i, 0): only its own deployer can deploy it, once
		for i, t := range s.tokens {
			if t == c {
				dep = s.w.Users[i]
			}
		}
	}
	s.tok.Reset(Dev{})
	pre := s.observe()
	out := s.w.Deliver(func(ctx sdk.Context) error {
		return s.tok.Deploy(ctx, c, common.BytesToAddress(dep), sup.BigInt(), bad)
	})
	s.emit("dep", fmt.Sprintf("c=%s by=%s sup=%s", s.alias(c.Bytes()), s.alias(dep), sup), Dev{}, out, "", pre)
}

// opReimport: ExportGenesis, empty the three prefixes, InitGenesis with what was exported
func (s *e20Suite) opReimport() {
	s.tok.Reset(Dev{})
	pre := s.observe()
	out := s.w.Deliver(func(ctx sdk.Context) error {
		gs := erc20.ExportGenesis(ctx, s.k)
		if err := gs.Validate(); err != nil {
			return err
		}
		store := ctx.KVStore(s.w.App.GetKey(erc20types.StoreKey))
		var keys [][]byte
		it := storetypes.KVStorePrefixIterator(store, nil)
		for ; it.Valid(); it.Next() {
			keys = append(keys, append([]byte{}, it.Key()...))
		}
		it.Close()
		for _, k := range keys {
			store.Delete(k)
		}
		erc20.InitGenesis(ctx, s.k, s.w.App.AccountKeeper, *gs)
		return nil
	})
	s.emit("reimp", "", Dev{}, out, "", pre)
}

func init() {
	suites["erc20"] = func(seed uint64, n int, out string) map[string]int { return runErc20(seed, n, out, false, 0) }
	// honest worlds only (C03): world 0 on the script EVM without deviations, then worlds on the real EVM
	suites["erc20e"] = func(seed uint64, n int, out string) map[string]int { return runErc20(seed, n, out, true, 1) }
	suites["erc20h"] = func(seed uint64, n int, out string) map[string]int { return runErc20(seed, n, out, true, 0) }
}

// realFrom: the index of the first world that runs on the real EVM (0: none)
func runErc20(seed uint64, nOps int, outPath string, honest bool, realFrom int) map[string]int {
	s := &e20Suite{r: SeedRng("erc20", seed), stat: map[string]int{}, honest: honest}
	s.t = NewTrace(outPath)
	defer s.t.Close()
	done := 0
	count := func(before int) { done += s.t.seq - before }
	first := true
	world := 0
	for done < nOps {
		s.scale = s.r.Intn(4)
		s.real = realFrom > 0 && world >= realFrom
		perWorld := 400
		if honest && !s.real {
			perWorld = nOps / 2
		}
		// the second world of the non-honest suite is crowded: more pairs than one default page of the query servers
		s.crowd = !honest && world == 1
		if s.crowd {
			perWorld = 120
		}
		world++
		s.newWorld()
		s.t.Line(s.envLine())
		s.sync()
		if s.crowd {
			for range s.extra {
				if done >= nOps {
					break
				}
				b := s.t.seq
				s.opRegisterCoin(true)
				count(b)
			}
			b := s.t.seq
			s.opReimport()
			count(b)
		}
		// seed the registry with mostly valid registrations
		for i := 0; i < 6 && done < nOps; i++ {
			b := s.t.seq
			if i%2 == 0 {
				s.opRegisterCoin(true)
			} else {
				s.opRegisterERC20(true)
			}
			count(b)
		}
		if first && !honest {
			first = false
			b := s.t.seq
			s.sweep()
			done += s.t.seq - b
			s.sync()
		}
		for i := 0; i < perWorld && done < nOps; i++ {
			b := s.t.seq
			// a panic while *generating* an operation (arithmetic on extreme values) must not end the run
			func() {
				defer func() {
					if x := recover(); x != nil {
						s.stat["generator-panic"]++
						s.stat["panicmsg:generator:"+fmt.Sprint(x)]++
						s.later, s.noLater = false, false
						s.sync()
					}
				}()
			switch k := s.r.Intn(100); {
			case k < 22:
				s.opConvertCoin()
			case k < 44:
				s.opConvertERC20()
			case k < 50:
				s.opRoundtrip()
			case k < 56:
				s.opRegisterCoin(false)
			case k < 62:
				s.opRegisterERC20(false)
			case k < 68:
				s.opToggle()
			case k < 72:
				s.opParams()
			case k < 80:
				if honest {
					s.opTx()
				} else {
					s.opHook()
				}
			case k < 89:
				if !s.real && s.r.Intn(3) == 0 {
					s.opTxBatch()
				} else {
					s.opTx()
				}
			case k < 92:
				s.opSend()
			case k < 95:
				s.opSendEnabled()
			case k < 96:
				if honest {
					s.opTx()
				} else {
					s.opSelfdestruct()
				}
			case k < 98:
				s.opDeploy()
			default:
				s.opReimport()
			}
			}()
			count(b)
			if i%100 == 99 {
				s.sync()
			}
		}
	}
	return s.stat
}
