package main

// Suite "genesis" (C18): generated block histories on the real application; at every checkpoint
//   export (ExportAppStateAndValidators) -> InitChain of a fresh application with that state -> export again,
// compared JSON-canonically on the seven Canto sections, with each module's ValidateGenesis run on the export, the
// Canto gRPC queries answered on both chains, and the raw KV pairs of the Canto stores dumped before the export
// and after the import (reach check: an index or counter that the export omits shows up here even when no query
// shows it). The exported sections are printed for the Lean driver, which runs the model's validate / init / export.

import (
	"encoding/json"
	"fmt"
	"os"
	"strings"
	"time"

	tmproto "github.com/cometbft/cometbft/proto/tendermint/types"
	"github.com/cosmos/cosmos-sdk/types/module"
)

func init() { suites["genesis"] = runGenesis }

type genSuite struct {
	cfg  *ChainCfg
	r    *Rng
	t    *Trace
	n    *Node
	h    *Hist
	stat map[string]int
	last time.Time
}

func joinOr(xs []string, none string) string {
	if len(xs) == 0 {
		return none
	}
	if len(xs) > 12 {
		xs = append(xs[:12], fmt.Sprintf("...(%d)", len(xs)))
	}
	return strings.Join(xs, ";")
}

// validateSections runs every Canto module's own ValidateGenesis on its exported section.
func validateSections(n *Node, sections map[string]json.RawMessage) []string {
	var bad []string
	for _, m := range cantoModules {
		mod, ok := n.App.ModuleManager.Modules[m].(module.HasGenesisBasics)
		if !ok {
			bad = append(bad, m+":no-validate")
			continue
		}
		func() {
			defer func() {
				if r := recover(); r != nil {
					bad = append(bad, m+":panic")
				}
			}()
			if err := mod.ValidateGenesis(n.App.AppCodec(), n.App.TxConfig(), sections[m]); err != nil {
				bad = append(bad, m)
				if os.Getenv("VERIF_DEBUG") != "" {
					fmt.Fprintln(os.Stderr, "validate", m, err)
				}
			}
		}()
	}
	return bad
}

func (s *genSuite) roundTrip(seq int) {
	n := s.n
	cdc := n.App.AppCodec()
	h := n.App.LastBlockHeight()
	t := s.last

	// chain 1: raw stores, export, queries
	kv1 := dumpKV(n.App, n.QueryCtx())
	sec1, expH, err := exportSections(n.App)
	if err != nil {
		s.t.Line(fmt.Sprintf("O %d roundtrip h=%d t=%s => rej:export1 err=%s", seq, h, timeNs(t), gsafe(err.Error())))
		s.stat["roundtrip/rej:export1"]++
		return
	}
	g1, err := parseCantoGen(cdc, sec1)
	if err != nil {
		s.t.Line(fmt.Sprintf("O %d roundtrip h=%d t=%s => rej:decode1 err=%s", seq, h, timeNs(t), gsafe(err.Error())))
		s.stat["roundtrip/rej:decode1"]++
		return
	}
	qs := cantoQuerySpecs(g1)
	q1 := runQueries(n.App, qs)
	invalid := validateSections(n, sec1)
	// the exported state on one `S` line: the runner copies the latest S line into a replay file (the failing input)
	s.t.Line(fmt.Sprintf("S %d export-of-chain-at-height-%d %s", seq, h, strings.Join(g1.Lines(seq, 1), " || ")))
	for _, l := range g1.Lines(seq, 1) {
		s.t.Line(l)
	}
	for _, l := range kvKeyLines(seq, 1, kv1) {
		s.t.Line(l)
	}

	// chain 2: a fresh application initialised from the export at the exported height, with the exported block time
	state, _ := json.Marshal(sec1)
	n2 := NewNode("import", s.cfg)
	if err := n2.InitChain(state, t, expH); err != nil {
		s.t.Line(fmt.Sprintf("O %d roundtrip h=%d t=%s inith=%d => rej:import validate=%s err=%s", seq, h, timeNs(t), expH, joinOr(invalid, "ok"), gsafe(err.Error())))
		s.stat["roundtrip/rej:import"]++
		return
	}
	ctx2 := n2.App.BaseApp.NewContextLegacy(false, tmproto.Header{Height: expH, ChainID: chainID, Time: t})
	sec2a, err := directSections(n2.App, ctx2)
	if err != nil {
		s.t.Line(fmt.Sprintf("O %d roundtrip h=%d t=%s inith=%d => rej:export2a err=%s", seq, h, timeNs(t), expH, gsafe(err.Error())))
		s.stat["roundtrip/rej:export2a"]++
		return
	}
	kv2a := dumpKV(n2.App, ctx2)
	g2a, _ := parseCantoGen(cdc, sec2a)
	for _, l := range g2a.Lines(seq, 2) {
		s.t.Line(l)
	}
	for _, l := range kvKeyLines(seq, 2, kv2a) {
		s.t.Line(l)
	}
	// An epoch that is more than one duration behind the block time ticks again in the next block whatever its time is
	// (one tick per block): the post-import block would then legitimately change the epochs / inflation state. Such
	// checkpoints get the pure comparison only.
	behind := false
	for _, e := range g1.Epochs.Epochs {
		if !e.StartTime.After(t) && (!e.EpochCountingStarted || t.After(e.CurrentEpochStartTime.Add(e.Duration))) {
			behind = true
		}
	}
	// Likewise a chain exported after governance enabled csr but before the next BeginBlock deployed the Turnstile: the
	// post-import block legitimately deploys it.
	if g1.Csr.Params.EnableCsr && g1.Csr.TurnstileAddress == "" {
		behind = true
	}
	if behind {
		dja := diffSections(sec1, sec2a)
		dka := diffKV(cdc, kv1, kv2a)
		s.t.Line(fmt.Sprintf("O %d roundtrip h=%d t=%s inith=%d pools=%d pairs=%d csrs=%d nq=0 => ok validate=%s json2a=%s json2b=skip kv2a=%s kv2b=skip q=skip",
			seq, h, timeNs(t), expH, len(g1.Coinswap.Pool), len(g1.Erc20.TokenPairs), len(g1.Csr.Csrs),
			joinOr(invalid, "ok"), joinOr(dja, "eq"), joinOr(dka, "eq")))
		s.stat["roundtrip-pure/ok"]++
		if len(invalid)+len(dja)+len(dka) > 0 {
			s.stat["roundtrip/mismatch"]++
		}
		return
	}
	// one block at the same time (no epoch can tick), commit, then the official export path and the gRPC queries
	if _, err := n2.Block(expH, t, nil); err != nil {
		s.t.Line(fmt.Sprintf("O %d roundtrip h=%d t=%s inith=%d => rej:block2 err=%s", seq, h, timeNs(t), expH, gsafe(err.Error())))
		s.stat["roundtrip/rej:block2"]++
		return
	}
	sec2b, _, err := exportSections(n2.App)
	if err != nil {
		s.t.Line(fmt.Sprintf("O %d roundtrip h=%d t=%s inith=%d => rej:export2b err=%s", seq, h, timeNs(t), expH, gsafe(err.Error())))
		s.stat["roundtrip/rej:export2b"]++
		return
	}
	kv2b := dumpKV(n2.App, n2.QueryCtx())
	g2b, _ := parseCantoGen(cdc, sec2b)
	for _, l := range g2b.Lines(seq, 3) {
		s.t.Line(l)
	}
	q2 := runQueries(n2.App, qs)

	dja := diffSections(sec1, sec2a)
	djb := diffSections(sec1, sec2b)
	dka := diffKV(cdc, kv1, kv2a)
	dkb := diffKV(cdc, kv1, kv2b)
	dq := diffQueries(qs, q1, q2)
	s.t.Line(fmt.Sprintf("O %d roundtrip h=%d t=%s inith=%d pools=%d pairs=%d csrs=%d nq=%d => ok validate=%s json2a=%s json2b=%s kv2a=%s kv2b=%s q=%s",
		seq, h, timeNs(t), expH, len(g1.Coinswap.Pool), len(g1.Erc20.TokenPairs), len(g1.Csr.Csrs), len(qs),
		joinOr(invalid, "ok"), joinOr(dja, "eq"), joinOr(djb, "eq"), joinOr(dka, "eq"), joinOr(dkb, "eq"), joinOr(dq, "eq")))
	s.stat["roundtrip/ok"]++
	if len(invalid)+len(dja)+len(djb)+len(dka)+len(dkb)+len(dq) > 0 {
		s.stat["roundtrip/mismatch"]++
	}
	s.stat["queries-compared"] += len(qs)
}

// ops = number of round trips; between two of them the history advances by a few blocks
func runGenesis(seed uint64, ops int, out string) map[string]int {
	r := SeedRng("genesis", seed)
	s := &genSuite{r: r, t: NewTrace(out), stat: map[string]int{}}
	defer s.t.Close()
	seq := 0
	perWorld := 8
	for seq < ops {
		s.cfg = NewChainCfg(6, r)
		s.n = NewNode("A", s.cfg)
		if err := s.n.InitChain(s.cfg.Genesis, s.cfg.GenTime, 1); err != nil {
			fmt.Fprintln(os.Stderr, "genesis: InitChain failed:", err)
			os.Exit(1)
		}
		s.h = NewHist(s.cfg, r, s.n)
		if w := seq / perWorld; w == 1 || w == 2 {
			// a registry of more than a hundred CSRs (one default page of the query servers) before the later checkpoints
			s.h.burst = 102 + r.Intn(8)
		}
		s.t.Line(fmt.Sprintf("W world=%d", seq/perWorld))
		for k := 0; k < perWorld && seq < ops; k++ {
			nb := 1 + r.Intn(12)
			if k == 0 {
				nb = 1 + r.Intn(3) // an early checkpoint: nearly empty state
			}
			for b := 0; b < nb; b++ {
				ht, t, txs := s.h.NextBlock()
				res, err := s.n.Block(ht, t, txBytes(txs))
				if err != nil {
					fmt.Fprintln(os.Stderr, "genesis: block failed:", err)
					os.Exit(1)
				}
				s.h.Observe(res)
				s.last = t
				s.stat["blocks"]++
			}
			seq++
			s.roundTrip(seq)
		}
		for k, v := range s.h.stat {
			s.stat[k] += v
		}
	}
	return s.stat
}
