package main

// Suite "params" (C17): every privileged message of the Canto modules through the application's MsgServiceRouter
// under the gov discipline (branch, recover, commit on success), plus the legacy ParameterChangeProposal route through
// gov's MsgExecLegacyContent.  Observed per operation: the outcome, what the handler had written to its branch when it
// gave up (rejections), and afterwards the parameters of the five modules, the number of token pairs, the govshuttle
// port and two whole-store digests.

import (
	"encoding/json"
	"fmt"
	"math/big"
	"strings"
	"time"

	sdkmath "cosmossdk.io/math"
	codectypes "github.com/cosmos/cosmos-sdk/codec/types"
	sdk "github.com/cosmos/cosmos-sdk/types"
	"github.com/cosmos/cosmos-sdk/types/bech32"
	authtypes "github.com/cosmos/cosmos-sdk/x/auth/types"
	banktypes "github.com/cosmos/cosmos-sdk/x/bank/types"
	govtypes "github.com/cosmos/cosmos-sdk/x/gov/types"
	govv1 "github.com/cosmos/cosmos-sdk/x/gov/types/v1"
	paramstypes "github.com/cosmos/cosmos-sdk/x/params/types"
	paramproposal "github.com/cosmos/cosmos-sdk/x/params/types/proposal"
	"github.com/ethereum/go-ethereum/common"

	coinswaptypes "github.com/Canto-Network/Canto/v8/x/coinswap/types"
	csrtypes "github.com/Canto-Network/Canto/v8/x/csr/types"
	erc20types "github.com/Canto-Network/Canto/v8/x/erc20/types"
	govshuttletypes "github.com/Canto-Network/Canto/v8/x/govshuttle/types"
	inflationtypes "github.com/Canto-Network/Canto/v8/x/inflation/types"
	onboardingtypes "github.com/Canto-Network/Canto/v8/x/onboarding/types"
)

type pSuite struct {
	w      *World
	r      *Rng
	t      *Trace
	gov    string
	stat   map[string]int
	coins  []string         // denominations with supply that can be registered
	tokens []common.Address // deployed, not yet registered ERC-20 contracts
	regd   []string         // registered tokens (denominations / hex addresses)
	world  int
}

var one18 = sdkmath.NewIntWithDecimal(1, 18)

func gvDecOf(i sdkmath.Int) sdkmath.LegacyDec {
	return sdkmath.LegacyNewDecFromBigIntWithPrec(i.BigInt(), 18)
}

// ---------- state rendering ----------

func coinsStr(cs sdk.Coins) string {
	var out []string
	for _, c := range cs {
		out = append(out, pSafe(c.Denom)+":"+intStr(c.Amount))
	}
	return strings.Join(out, ",")
}
func strsStr(ss []string) string {
	var out []string
	for _, s := range ss {
		out = append(out, pSafe(s))
	}
	return strings.Join(out, ",")
}

func csStr(p coinswaptypes.Params) string {
	return fmt.Sprintf("cs.fee=%s cs.pfd=%s cs.pfa=%s cs.tax=%s cs.maxstd=%s cs.ms=%s", decStr(p.Fee), pSafe(p.PoolCreationFee.Denom),
		intStr(p.PoolCreationFee.Amount), decStr(p.TaxRate), intStr(p.MaxStandardCoinPerPool), coinsStr(p.MaxSwapAmount))
}
func ercStr(p erc20types.Params) string {
	return fmt.Sprintf("erc.e20=%s erc.hook=%s", gvB01(p.EnableErc20), gvB01(p.EnableEVMHook))
}
func infStr(p inflationtypes.Params) string {
	e, d := p.ExponentialCalculation, p.InflationDistribution
	return fmt.Sprintf("inf.md=%s inf.a=%s inf.r=%s inf.c=%s inf.bt=%s inf.mv=%s inf.sr=%s inf.cp=%s inf.en=%s", pSafe(p.MintDenom),
		decStr(e.A), decStr(e.R), decStr(e.C), decStr(e.BondingTarget), decStr(e.MaxVariance), decStr(d.StakingRewards), decStr(d.CommunityPool), gvB01(p.EnableInflation))
}
func csrStr(p csrtypes.Params) string {
	return fmt.Sprintf("csr.en=%s csr.sh=%s", gvB01(p.EnableCsr), decStr(p.CsrShares))
}
func onbStr(p onboardingtypes.Params) string {
	return fmt.Sprintf("onb.en=%s onb.th=%s onb.ch=%s", gvB01(p.EnableOnboarding), intStr(p.AutoSwapThreshold), strsStr(p.WhitelistedChannels))
}

// the five parameter sets as stored, read through the keepers
func (s *pSuite) paramState(ctx sdk.Context) string {
	a := s.w.App
	return strings.Join([]string{csStr(a.CoinswapKeeper.GetParams(ctx)), ercStr(a.Erc20Keeper.GetParams(ctx)), infStr(a.InflationKeeper.GetParams(ctx)),
		csrStr(a.CSRKeeper.GetParams(ctx)), onbStr(a.OnboardingKeeper.GetParams(ctx))}, " ")
}

func (s *pSuite) otherState(ctx sdk.Context) string {
	a := s.w.App
	_, port := a.GovshuttleKeeper.GetPort(ctx)
	return fmt.Sprintf("pairs=%d port=%s dg=%s dgx=%s", len(a.Erc20Keeper.GetTokenPairs(ctx)), gvB01(port), s.w.storeDigest(ctx), s.w.storeDigest(ctx, paramstypes.StoreKey))
}

func (s *pSuite) fullState(ctx sdk.Context) string {
	return s.paramState(ctx) + " " + s.otherState(ctx)
}

func (s *pSuite) sync() { s.t.Line("S " + s.fullState(s.w.Ctx)) }

// ---------- value pools: every field at, just inside and just outside its range ----------

func (s *pSuite) rawDec(lo0, hi1 bool) sdkmath.LegacyDec {
	r := s.r
	_ = lo0
	_ = hi1
	switch r.Intn(22) {
	case 0:
		return sdkmath.LegacyDec{} // nil
	case 1, 2:
		return gvDecOf(sdkmath.NewInt(-1))
	case 3, 4:
		return sdkmath.LegacyZeroDec()
	case 5:
		return sdkmath.LegacySmallestDec()
	case 6, 7:
		return gvDecOf(one18.SubRaw(1))
	case 8, 9, 10:
		return sdkmath.LegacyOneDec()
	case 11, 12:
		return gvDecOf(one18.AddRaw(1))
	case 13:
		return sdkmath.LegacyNewDec(2)
	case 14:
		return sdkmath.LegacyNewDecFromBigIntWithPrec(new(big.Int).Lsh(big.NewInt(1), 300), 18)
	case 15:
		return sdkmath.LegacyNewDecFromBigIntWithPrec(new(big.Int).Neg(new(big.Int).Lsh(big.NewInt(1), 300)), 18)
	case 16:
		return sdkmath.LegacyNewDecWithPrec(3, 3)
	case 17:
		return sdkmath.LegacyNewDecWithPrec(5, 1)
	case 18:
		return gvDecOf(r.Big(70).Mod(one18).Neg())
	default:
		return gvDecOf(r.Big(70).Mod(one18))
	}
}

// a value inside [0,1) most of the time
func (s *pSuite) unitDec(edgeBias int) sdkmath.LegacyDec {
	if s.r.Intn(100) < edgeBias {
		return s.rawDec(true, false)
	}
	switch s.r.Intn(6) {
	case 0:
		return sdkmath.LegacyZeroDec()
	case 1:
		return sdkmath.LegacyNewDecWithPrec(3, 3)
	case 2:
		return gvDecOf(one18.SubRaw(1))
	case 3:
		return sdkmath.LegacySmallestDec()
	default:
		return gvDecOf(s.r.Big(70).Mod(one18))
	}
}

func (s *pSuite) rawInt() sdkmath.Int {
	r := s.r
	switch r.Intn(12) {
	case 0:
		return sdkmath.Int{} // nil
	case 1:
		return sdkmath.NewInt(-1)
	case 2:
		return sdkmath.ZeroInt()
	case 3:
		return sdkmath.OneInt()
	case 4:
		return sdkmath.NewInt(2)
	case 5:
		return pow2(255)
	case 6:
		return pow2(255).SubRaw(1).MulRaw(2).AddRaw(1)
	case 7:
		return pow2(255).Neg()
	case 8:
		return sdkmath.NewIntWithDecimal(1, 22)
	case 9:
		return r.Big(100).Neg()
	default:
		return r.Big(100)
	}
}

func (s *pSuite) posInt(edgeBias int) sdkmath.Int {
	if s.r.Intn(100) < edgeBias {
		return s.rawInt()
	}
	switch s.r.Intn(4) {
	case 0:
		return sdkmath.OneInt()
	case 1:
		return sdkmath.NewIntWithDecimal(1, 22)
	default:
		return s.r.Big(90).AddRaw(1)
	}
}

var pDenoms = []string{"stake", "acanto", "ausdc", "abtc", "ibc/ETH", "zjunk", "Upper", "a.b_c-d:e/f"}
var pBadDenoms = []string{"", " ", "ab", "1abc", "bad!denom", "a b c", "é-accent", strings.Repeat("a", 129),
	// a valid denomination with white space around it is not a valid denomination
	" acanto", "acanto ", "\tacanto", "acanto\n", " acoina "}
var pEdgeDenoms = []string{"abc", strings.Repeat("a", 128), "A23"}

func (s *pSuite) denom(badBias int) string {
	r := s.r
	if r.Intn(100) < badBias {
		return pBadDenoms[r.Intn(len(pBadDenoms))]
	}
	if r.Intn(8) == 0 {
		return pEdgeDenoms[r.Intn(len(pEdgeDenoms))]
	}
	return pDenoms[r.Intn(len(pDenoms))]
}

func (s *pSuite) maxSwap(badBias int) sdk.Coins {
	r := s.r
	if r.Intn(100) >= badBias {
		switch r.Intn(5) {
		case 0:
			return coinswaptypes.DefaultMaxSwapAmount
		case 1:
			return sdk.Coins{}
		case 2:
			return nil
		default:
			cs := sdk.Coins{}
			for _, d := range []string{"Upper", "abtc", "ausdc", "ibc/ETH", "zjunk"} {
				if r.Intn(2) == 0 {
					cs = append(cs, sdk.Coin{Denom: d, Amount: s.posInt(0)})
				}
			}
			return cs
		}
	}
	// structurally broken lists
	n := 1 + r.Intn(3)
	cs := sdk.Coins{}
	for i := 0; i < n; i++ {
		cs = append(cs, sdk.Coin{Denom: s.denom(25), Amount: s.posInt(30)})
	}
	if r.Intn(3) == 0 && len(cs) > 1 {
		cs[1].Denom = cs[0].Denom // duplicate
	}
	return cs
}

var pChannels = []string{"channel-0", "channel-1", "channel-77", "", "not a channel", "a,b", "x=y"}

func (s *pSuite) channels() []string {
	r := s.r
	switch r.Intn(5) {
	case 0:
		return nil
	case 1:
		return []string{}
	case 2:
		return onboardingtypes.DefaultWhitelistedChannels
	default:
		var out []string
		for i := 0; i < 1+r.Intn(3); i++ {
			out = append(out, pChannels[r.Intn(len(pChannels))])
		}
		return out
	}
}

// ---------- authorities ----------

func (s *pSuite) authority() string {
	r := s.r
	if r.Intn(100) < 62 {
		return s.gov
	}
	govAddr := authtypes.NewModuleAddress(govtypes.ModuleName)
	switch r.Intn(12) {
	case 0, 1, 2:
		names := ModuleNames()
		n := names[r.Intn(len(names))]
		if n == govtypes.ModuleName {
			n = "distribution"
		}
		return authtypes.NewModuleAddress(n).String()
	case 3, 4:
		return s.w.Users[r.Intn(len(s.w.Users))].String()
	case 5:
		return ""
	case 6:
		return "canto1notanaddress"
	case 7:
		return strings.ToUpper(s.gov)
	case 8:
		return s.gov + " "
	case 9:
		return common.BytesToAddress(govAddr).Hex()
	case 10:
		other, _ := bech32.ConvertAndEncode("cosmos", govAddr)
		return other
	default:
		return s.gov[:len(s.gov)-1]
	}
}

// ---------- one operation ----------

func (s *pSuite) run(kind, args string, msg sdk.Msg) {
	s.t.seq++
	w := s.w
	pre := s.fullState(w.Ctx)
	prePar := s.paramState(w.Ctx)
	preDg := w.storeDigest(w.Ctx)
	branch := ""
	h := w.App.MsgServiceRouter().Handler(msg)
	// one transaction in twelve fails in a LATER message (a proposal whose second message is invalid): whatever this
	// message did on the branch is discarded with it
	later := s.r.Intn(12) == 0
	hok := false
	out := w.DeliverObs(func(ctx sdk.Context) error {
		if h == nil {
			return fmt.Errorf("no handler")
		}
		_, err := h(ctx, msg)
		if err == nil && later {
			hok = true
			return fmt.Errorf("a later message of the transaction failed")
		}
		return err
	}, func(b sdk.Context) {
		bd := "0"
		if w.storeDigest(b) != preDg {
			bd = "1"
		}
		branch = "bd=" + bd
		if d := kvDiff(prePar, s.paramState(b)); d != "" {
			for _, kv := range strings.Fields(d) {
				branch += " b." + kv
			}
		}
	})
	post := s.fullState(w.Ctx)
	if later {
		args += " later=1"
		if hok {
			out.Class = "later"
			branch = "hok=1 " + branch
		}
	}
	s.t.Line(fmt.Sprintf("O %d %s %s => %s %s | %s", s.t.seq, kind, args, out.String(), branch, kvDiff(pre, post)))
	s.stat[kind+":"+out.String()]++
	if out.Class == "panic" {
		m := out.Err
		if len(m) > 60 {
			m = m[:60]
		}
		s.stat["panicmsg:"+kind+":"+m]++
	}
}

func (s *pSuite) opCoinswap() {
	r := s.r
	p := s.w.App.CoinswapKeeper.GetParams(s.w.Ctx)
	if r.Intn(3) == 0 {
		p = coinswaptypes.DefaultParams()
	}
	// at most one field per message (none in a third of them) takes its value from the full edge pool
	edgeField := r.Intn(8)
	fld := 0
	pick := func() int {
		fld++
		if fld == edgeField {
			return 85
		}
		return 0
	}
	p.Fee = s.unitDec(pick())
	p.TaxRate = s.unitDec(pick())
	p.MaxStandardCoinPerPool = s.posInt(pick())
	feeAmt := sdkmath.NewInt(r.PickInt(0, 0, 1, 1000, 1000000))
	if r.Intn(5) == 0 {
		feeAmt = s.rawInt()
	}
	p.PoolCreationFee = sdk.Coin{Denom: s.denom(pick() / 3), Amount: feeAmt}
	p.MaxSwapAmount = s.maxSwap(pick() / 2)
	auth := s.authority()
	msg := &coinswaptypes.MsgUpdateParams{Authority: auth, Params: p}
	s.run("upd.cs", "auth="+pSafe(auth)+" "+strings.ReplaceAll(csStr(p), "cs.", ""), msg)
}

func (s *pSuite) opErc20() {
	p := erc20types.Params{EnableErc20: s.r.Intn(4) != 0, EnableEVMHook: s.r.Intn(2) == 0}
	auth := s.authority()
	s.run("upd.erc", "auth="+pSafe(auth)+" "+strings.ReplaceAll(ercStr(p), "erc.", ""), &erc20types.MsgUpdateParams{Authority: auth, Params: p})
}

func (s *pSuite) opInflation() {
	r := s.r
	p := inflationtypes.DefaultParams()
	edgeField := r.Intn(11)
	fld := 0
	pick := func() int {
		fld++
		if fld == edgeField {
			return 85
		}
		return 0
	}
	p.EnableInflation = r.Intn(2) == 0
	p.MintDenom = s.denom(pick() / 2)
	e := &p.ExponentialCalculation
	if b := pick(); b > 0 {
		e.A = s.rawDec(true, false)
	} else if r.Intn(2) == 0 {
		e.A = s.unitDec(0).MulInt64(int64(1 + r.Intn(1000000)))
	}
	e.R = s.unitDec(pick())
	if b := pick(); b > 0 {
		e.C = s.rawDec(true, false)
	} else {
		e.C = s.unitDec(0)
		if r.Intn(3) == 0 {
			e.C = e.C.MulInt64(int64(1 + r.Intn(100000)))
		}
	}
	e.BondingTarget = s.unitDec(pick())
	if e.BondingTarget.IsNil() == false && e.BondingTarget.IsZero() && r.Intn(2) == 0 {
		e.BondingTarget = sdkmath.LegacyOneDec()
	}
	e.MaxVariance = s.unitDec(pick())
	d := &p.InflationDistribution
	x := s.unitDec(0)
	switch r.Intn(20) {
	case 0:
		d.StakingRewards, d.CommunityPool = sdkmath.LegacyOneDec(), sdkmath.LegacyZeroDec()
	case 1:
		d.StakingRewards, d.CommunityPool = sdkmath.LegacyZeroDec(), sdkmath.LegacyOneDec()
	case 2:
		d.StakingRewards, d.CommunityPool = x, sdkmath.LegacyOneDec().Sub(x).Add(sdkmath.LegacySmallestDec())
	case 3:
		d.StakingRewards, d.CommunityPool = x, sdkmath.LegacyOneDec().Sub(x).Sub(sdkmath.LegacySmallestDec())
	case 4:
		d.StakingRewards, d.CommunityPool = gvDecOf(sdkmath.NewInt(-1)), gvDecOf(one18.AddRaw(1))
	case 5:
		d.StakingRewards, d.CommunityPool = gvDecOf(one18.AddRaw(1)), gvDecOf(sdkmath.NewInt(-1))
	case 6:
		d.StakingRewards, d.CommunityPool = s.rawDec(true, true), s.rawDec(true, true)
	default:
		d.StakingRewards, d.CommunityPool = x, sdkmath.LegacyOneDec().Sub(x)
	}
	auth := s.authority()
	s.run("upd.inf", "auth="+pSafe(auth)+" "+strings.ReplaceAll(infStr(p), "inf.", ""), &inflationtypes.MsgUpdateParams{Authority: auth, Params: p})
}

func (s *pSuite) opCsr() {
	p := csrtypes.Params{EnableCsr: s.r.Intn(2) == 0, CsrShares: s.unitDec(45)}
	auth := s.authority()
	s.run("upd.csr", "auth="+pSafe(auth)+" "+strings.ReplaceAll(csrStr(p), "csr.", ""), &csrtypes.MsgUpdateParams{Authority: auth, Params: p})
}

func (s *pSuite) opOnboarding() {
	p := onboardingtypes.Params{EnableOnboarding: s.r.Intn(2) == 0, AutoSwapThreshold: s.posInt(45), WhitelistedChannels: s.channels()}
	auth := s.authority()
	s.run("upd.onb", "auth="+pSafe(auth)+" "+strings.ReplaceAll(onbStr(p), "onb.", ""), &onboardingtypes.MsgUpdateParams{Authority: auth, Params: p})
}

// ---------- registrations and govshuttle proposals: authority first, the rest is the other suites' subject ----------

func coinMeta(base string) banktypes.Metadata {
	disp := strings.TrimPrefix(base, "a")
	return banktypes.Metadata{Description: "coin " + base, Base: base, Display: disp, Name: base, Symbol: strings.ToUpper(disp),
		DenomUnits: []*banktypes.DenomUnit{{Denom: base, Exponent: 0}, {Denom: disp, Exponent: 18}}}
}

func (s *pSuite) opRegisterCoin() {
	r := s.r
	base := "anosupply"
	if len(s.coins) > 0 && r.Intn(6) != 0 {
		base = s.coins[r.Intn(len(s.coins))]
	} else if len(s.regd) > 0 && r.Intn(2) == 0 {
		base = s.regd[r.Intn(len(s.regd))]
	}
	auth := s.authority()
	msg := &erc20types.MsgRegisterCoin{Authority: auth, Title: "t", Description: "d", Metadata: coinMeta(base)}
	pairs := len(s.w.App.Erc20Keeper.GetTokenPairs(s.w.Ctx))
	s.run("reg.coin", "auth="+pSafe(auth)+" base="+pSafe(base), msg)
	if len(s.w.App.Erc20Keeper.GetTokenPairs(s.w.Ctx)) > pairs {
		s.regd = append(s.regd, base)
		for i, c := range s.coins {
			if c == base {
				s.coins = append(s.coins[:i], s.coins[i+1:]...)
				break
			}
		}
	}
}

func (s *pSuite) opRegisterERC20() {
	r := s.r
	addr := common.BytesToAddress([]byte{byte(r.Intn(250)), 7})
	if len(s.tokens) > 0 && r.Intn(6) != 0 {
		addr = s.tokens[r.Intn(len(s.tokens))]
	}
	auth := s.authority()
	msg := &erc20types.MsgRegisterERC20{Authority: auth, Title: "t", Description: "d", Erc20Address: addr.Hex()}
	pairs := len(s.w.App.Erc20Keeper.GetTokenPairs(s.w.Ctx))
	s.run("reg.erc20", "auth="+pSafe(auth)+" addr="+addr.Hex(), msg)
	if len(s.w.App.Erc20Keeper.GetTokenPairs(s.w.Ctx)) > pairs {
		s.regd = append(s.regd, addr.Hex())
		for i, c := range s.tokens {
			if c == addr {
				s.tokens = append(s.tokens[:i], s.tokens[i+1:]...)
				break
			}
		}
	}
}

func (s *pSuite) opToggle() {
	r := s.r
	tok := "anosuch"
	if len(s.regd) > 0 && r.Intn(6) != 0 {
		tok = s.regd[r.Intn(len(s.regd))]
	}
	auth := s.authority()
	s.run("toggle", "auth="+pSafe(auth)+" token="+pSafe(tok), &erc20types.MsgToggleTokenConversion{Authority: auth, Title: "t", Description: "d", Token: tok})
}

func (s *pSuite) opLending() {
	r := s.r
	n := 1 + r.Intn(2)
	md := &govshuttletypes.LendingMarketMetadata{PropId: uint64(r.Intn(3))}
	for i := 0; i < n; i++ {
		md.Account = append(md.Account, common.BytesToAddress([]byte{byte(i + 1)}).Hex())
		md.Values = append(md.Values, uint64(r.Intn(5)))
		md.Calldatas = append(md.Calldatas, "abcd")
		md.Signatures = append(md.Signatures, "f()")
	}
	shape := "ok"
	switch r.Intn(8) {
	case 0:
		md.Values = md.Values[:len(md.Values)-1]
		shape = "vals"
	case 1:
		md.Signatures = append(md.Signatures, "g()")
		shape = "sigs"
	}
	auth := s.authority()
	s.run("lend", "auth="+pSafe(auth)+" shape="+shape, &govshuttletypes.MsgLendingMarketProposal{Authority: auth, Title: "lm", Description: "d", Metadata: md})
}

func (s *pSuite) opTreasury() {
	r := s.r
	den := r.PickStr("canto", "note", "CANTO", "Note", "acanto", "")
	auth := s.authority()
	md := &govshuttletypes.TreasuryProposalMetadata{PropID: uint64(r.Intn(3)), Recipient: common.BytesToAddress([]byte{9}).Hex(), Amount: uint64(r.Intn(100)), Denom: den}
	s.run("treas", "auth="+pSafe(auth)+" denom="+pSafe(den), &govshuttletypes.MsgTreasuryProposal{Authority: auth, Title: "tp", Description: "d", Metadata: md})
}

// ---------- the legacy route: ParameterChangeProposal through gov's MsgExecLegacyContent ----------

func decJSON(d sdkmath.LegacyDec) string { return `"` + d.String() + `"` }
func intJSON(i sdkmath.Int) string       { return `"` + i.String() + `"` }

// optional sub-field of a JSON object: absent fields keep the stored value (Subspace.Update unmarshals onto the stored one)
func (s *pSuite) optDec(edge int, name string, js *[]string, tr *[]string) {
	if s.r.Intn(4) == 0 {
		*tr = append(*tr, "-")
		return
	}
	d := s.unitDec(edge)
	for d.IsNil() {
		d = s.unitDec(edge)
	}
	*js = append(*js, `"`+name+`":`+decJSON(d))
	*tr = append(*tr, d.BigInt().String())
}

func (s *pSuite) legacyChange() (paramproposal.ParamChange, string) {
	r := s.r
	edge := 0
	if r.Intn(3) == 0 {
		edge = 70
	}
	nn := func(f func() sdkmath.LegacyDec) sdkmath.LegacyDec {
		d := f()
		for d.IsNil() {
			d = f()
		}
		return d
	}
	nnI := func() sdkmath.Int {
		i := s.posInt(edge)
		for i.IsNil() {
			i = s.posInt(edge)
		}
		return i
	}
	mk := func(sub, key, val, tr string) (paramproposal.ParamChange, string) {
		return paramproposal.ParamChange{Subspace: sub, Key: key, Value: val}, fmt.Sprintf("%s:%s:%s", pSafe(sub), pSafe(key), tr)
	}
	bad := func(sub, key string, vals ...string) (paramproposal.ParamChange, string) {
		return mk(sub, key, vals[r.Intn(len(vals))], "bad")
	}
	badDec := []string{`"abc"`, `true`, `"1.0000000000000000001"`, `{"x":1}`, ``, `"`, `12`}
	badInt := []string{`"1.5"`, `true`, `"abc"`, `[]`, ``, `7`}
	badBool := []string{`"yes"`, `1`, `"true"`, ``}
	k := r.Intn(24)
	isBad := r.Intn(12) == 0
	switch k {
	case 0, 1:
		if isBad {
			return bad("coinswap", "Fee", badDec...)
		}
		d := nn(func() sdkmath.LegacyDec { return s.unitDec(edge) })
		return mk("coinswap", "Fee", decJSON(d), "dec~"+d.BigInt().String())
	case 2:
		if isBad {
			return bad("coinswap", "TaxRate", badDec...)
		}
		d := nn(func() sdkmath.LegacyDec { return s.unitDec(edge) })
		return mk("coinswap", "TaxRate", decJSON(d), "dec~"+d.BigInt().String())
	case 3:
		if isBad {
			return bad("coinswap", "MaxStandardCoinPerPool", badInt...)
		}
		i := nnI()
		return mk("coinswap", "MaxStandardCoinPerPool", intJSON(i), "int~"+i.String())
	case 4:
		if isBad {
			return bad("coinswap", "PoolCreationFee", `"5stake"`, `[]`, `{"denom":5}`, `{"amount":"x"}`)
		}
		var js, tr []string
		if r.Intn(4) != 0 {
			d := s.denom(edge / 3)
			js = append(js, `"denom":`+strJSON(d))
			tr = append(tr, pSafe(d))
		} else {
			tr = append(tr, "-")
		}
		if r.Intn(4) != 0 {
			i := sdkmath.NewInt(r.PickInt(0, 1, 1000))
			if edge > 0 {
				i = nnI()
			}
			js = append(js, `"amount":`+intJSON(i))
			tr = append(tr, i.String())
		} else {
			tr = append(tr, "-")
		}
		return mk("coinswap", "PoolCreationFee", "{"+strings.Join(js, ",")+"}", "coin~"+strings.Join(tr, "~"))
	case 5, 6:
		if isBad {
			return bad("coinswap", "MaxSwapAmount", `"x"`, `{}`, `[{"denom":"a","amount":"z"}]`, `[1]`)
		}
		cs := s.maxSwap(edge)
		var js []string
		clean := sdk.Coins{}
		for _, c := range cs {
			if c.Amount.IsNil() {
				c.Amount = sdkmath.ZeroInt()
			}
			clean = append(clean, c)
			js = append(js, `{"denom":`+strJSON(c.Denom)+`,"amount":`+intJSON(c.Amount)+`}`)
		}
		tr := "coins"
		for _, c := range clean {
			tr += "~" + pSafe(c.Denom) + "~" + c.Amount.String()
		}
		return mk("coinswap", "MaxSwapAmount", "["+strings.Join(js, ",")+"]", tr)
	case 7:
		return mk("coinswap", r.PickStr("StandardDenom", "fee", "Nope"), `"stake"`, "str~stake")
	case 8:
		if isBad {
			return bad("erc20", "EnableErc20", badBool...)
		}
		b := r.Intn(3) != 0
		return mk("erc20", r.PickStr("EnableErc20", "EnableEVMHook"), fmt.Sprint(b), "bool~"+gvB01(b))
	case 9:
		if isBad {
			return bad("inflation", "ParamStoreKeyMintDenom", `5`, `true`, `["a"]`)
		}
		d := s.denom(edge / 2)
		return mk("inflation", "ParamStoreKeyMintDenom", strJSON(d), "str~"+pSafe(d))
	case 10, 11, 12:
		if isBad {
			return bad("inflation", "ParamStoreKeyExponentialCalculation", `"x"`, `{"a":"q"}`, `[]`, `{"r":true}`)
		}
		var js, tr []string
		s.optDec(edge, "a", &js, &tr)
		s.optDec(edge, "r", &js, &tr)
		s.optDec(edge, "c", &js, &tr)
		s.optDec(edge, "bonding_target", &js, &tr)
		s.optDec(edge, "max_variance", &js, &tr)
		return mk("inflation", "ParamStoreKeyExponentialCalculation", "{"+strings.Join(js, ",")+"}", "exp~"+strings.Join(tr, "~"))
	case 13, 14:
		if isBad {
			return bad("inflation", "ParamStoreKeyInflationDistribution", `"x"`, `{"staking_rewards":"q"}`, `7`)
		}
		x := nn(func() sdkmath.LegacyDec { return s.unitDec(0) })
		y := sdkmath.LegacyOneDec().Sub(x)
		switch r.Intn(6) {
		case 0:
			y = y.Add(sdkmath.LegacySmallestDec())
		case 1:
			x, y = gvDecOf(sdkmath.NewInt(-1)), gvDecOf(one18.AddRaw(1))
		case 2:
			// only one side: valid iff it equals what is stored
			cur := s.w.App.InflationKeeper.GetParams(s.w.Ctx).InflationDistribution
			if r.Intn(2) == 0 {
				x = cur.StakingRewards
			}
			return mk("inflation", "ParamStoreKeyInflationDistribution", `{"staking_rewards":`+decJSON(x)+`}`, "dist~"+x.BigInt().String()+"~-")
		}
		return mk("inflation", "ParamStoreKeyInflationDistribution", `{"staking_rewards":`+decJSON(x)+`,"community_pool":`+decJSON(y)+`}`,
			"dist~"+x.BigInt().String()+"~"+y.BigInt().String())
	case 15:
		b := r.Intn(2) == 0
		return mk("inflation", "ParamStoreKeyEnableInflation", fmt.Sprint(b), "bool~"+gvB01(b))
	case 16, 17:
		if isBad {
			return bad("csr", "CSRShares", badDec...)
		}
		d := nn(func() sdkmath.LegacyDec { return s.unitDec(50) })
		return mk("csr", "CSRShares", decJSON(d), "dec~"+d.BigInt().String())
	case 18:
		b := r.Intn(2) == 0
		return mk("csr", "EnableCSR", fmt.Sprint(b), "bool~"+gvB01(b))
	case 19:
		if isBad {
			return bad("onboarding", "AutoSwapThreshold", badInt...)
		}
		i := nnI()
		return mk("onboarding", "AutoSwapThreshold", intJSON(i), "int~"+i.String())
	case 20:
		if isBad {
			return bad("onboarding", "WhitelistedChannels", `"channel-0"`, `[1]`, `{}`)
		}
		ch := s.channels()
		var js []string
		for _, c := range ch {
			js = append(js, strJSON(c))
		}
		tr := "strs"
		for _, c := range ch {
			tr += "~" + pSafe(c)
		}
		return mk("onboarding", "WhitelistedChannels", "["+strings.Join(js, ",")+"]", tr)
	case 21:
		b := r.Intn(2) == 0
		return mk("onboarding", "EnableOnboarding", fmt.Sprint(b), "bool~"+gvB01(b))
	case 22:
		return mk(r.PickStr("govshuttle", "epochs", "nosuchspace", ""), "Fee", `"0.1"`, "dec~100000000000000000")
	default:
		return mk("govshuttle", "Anything", `true`, "bool~1")
	}
}

func (s *pSuite) opLegacy() {
	r := s.r
	n := 1
	switch r.Intn(8) {
	case 0:
		n = 0
	case 1, 2:
		n = 2
	case 3:
		n = 3
	}
	var changes []paramproposal.ParamChange
	var trs []string
	for i := 0; i < n; i++ {
		c, tr := s.legacyChange()
		changes = append(changes, c)
		trs = append(trs, tr)
	}
	auth := s.authority()
	content := paramproposal.NewParameterChangeProposal("title", "description", changes)
	any, err := codectypes.NewAnyWithValue(content)
	if err != nil {
		panic(err)
	}
	msg := &govv1.MsgExecLegacyContent{Content: any, Authority: auth}
	s.run("legacy", "auth="+pSafe(auth)+" ch="+strings.Join(trs, ";"), msg)
}

// ---------- driver ----------

func init() { suites["params"] = runParams }

func runParams(seed uint64, nOps int, outPath string) map[string]int {
	s := &pSuite{r: seedRng("params", seed), stat: map[string]int{}}
	s.t = NewTrace(outPath)
	defer s.t.Close()
	s.gov = authtypes.NewModuleAddress(govtypes.ModuleName).String()
	done := 0
	for done < nOps {
		s.world++
		now := time.Unix(1_700_000_000+int64(s.r.Intn(1000)), 0).UTC()
		fund := sdk.NewCoins(sdk.NewCoin("stake", pow2(100)), sdk.NewCoin("acanto", pow2(100)))
		s.coins = nil
		for i := 0; i < 9; i++ {
			d := fmt.Sprintf("acoin%c", 'a'+i)
			s.coins = append(s.coins, d)
			fund = fund.Add(sdk.NewCoin(d, pow2(80)))
		}
		s.w = NewEvmWorld(3, fund, now, byte(s.world))
		s.regd, s.tokens = nil, nil
		// a few deployed, unregistered ERC-20 contracts (deployed by the erc20 module account, as RegisterCoin does)
		for i := 0; i < 8; i++ {
			md := coinMeta(fmt.Sprintf("atok%c", 'a'+i))
			addr, err := s.w.App.Erc20Keeper.DeployERC20Contract(s.w.Ctx, md)
			if err != nil {
				panic(err)
			}
			s.tokens = append(s.tokens, addr)
		}
		s.t.Line("E gov=" + s.gov)
		s.sync()
		for i := 0; i < 400 && done < nOps; i++ {
			switch k := s.r.Intn(40); {
			case k < 8:
				s.opCoinswap()
			case k < 11:
				s.opErc20()
			case k < 17:
				s.opInflation()
			case k < 20:
				s.opCsr()
			case k < 23:
				s.opOnboarding()
			case k < 25:
				s.opRegisterCoin()
			case k < 27:
				s.opRegisterERC20()
			case k < 29:
				s.opToggle()
			case k < 30:
				s.opLending()
			case k < 31:
				s.opTreasury()
			default:
				s.opLegacy()
			}
			done++
		}
	}
	return s.stat
}

// strJSON: a Go string as a JSON string literal (control characters such as the newline of a whitespace-padded
// denomination escaped; a raw newline inside the quotes is not JSON at all and the value would not decode)
func strJSON(v string) string {
	b, err := json.Marshal(v)
	if err != nil {
		panic(err)
	}
	return string(b)
}
