package main

// Suite "csr": the real CSR fee hook (PostTxProcessing) on the real EVM with the real Turnstile, driven with generated
// (to, gasUsed, gasPrice, logs): forged receipts mixing Register / Assign / other logs from the Turnstile and from other
// emitters, valid, duplicate, non-contract and malformed, and genuine receipts produced by contracts that call
// Turnstile.register / assign on the EVM; parameter updates through the real MsgUpdateParams; funding of the fee collector.
// Serves C10 and C16.

import (
	"bytes"
	"fmt"
	"math"
	"math/big"
	"sort"
	"strings"
	"time"

	sdkmath "cosmossdk.io/math"
	sdk "github.com/cosmos/cosmos-sdk/types"
	authtypes "github.com/cosmos/cosmos-sdk/x/auth/types"
	govtypes "github.com/cosmos/cosmos-sdk/x/gov/types"
	"github.com/ethereum/go-ethereum/common"
	ethtypes "github.com/ethereum/go-ethereum/core/types"
	"github.com/evmos/ethermint/crypto/ethsecp256k1"
	evmtypes "github.com/evmos/ethermint/x/evm/types"

	"github.com/Canto-Network/Canto/v8/contracts"
	csrkeeper "github.com/Canto-Network/Canto/v8/x/csr/keeper"
	csrtypes "github.com/Canto-Network/Canto/v8/x/csr/types"
)

type csrSuite struct {
	w    *World
	r    *Rng
	t    *Trace
	stat map[string]int
	ms   csrtypes.MsgServer

	denom   string
	ts      common.Address   // the module's Turnstile
	hasTs   bool             // false in the "never deployed" world variant
	ts2     common.Address   // another Turnstile deployment: emits the same topics
	factory common.Address   // FactoryContract bound to ts
	callers []common.Address // CSRSmartContract instances bound to ts that have not yet called register/assign
	foreign []common.Address // CSRSmartContract instances bound to ts2
	coded   []common.Address // every address with contract code we know of
	plain   []common.Address // addresses without code (accounts and non-accounts)
	ids     []uint64         // NFT ids whose Turnstile balance is observed
	nChild  int
	huge    bool
	key     *ethsecp256k1.PrivKey // signs the real Ethereum transactions (derived from the PRNG)
	keyAddr common.Address
}

var csrIDPool = []uint64{0, 1, 2, 3, 4, 5, 6, 7, 8, 9, 1 << 63, math.MaxUint64}

func (s *csrSuite) alias(a common.Address, name string) { s.w.SetAlias(accOf(a), name) }
func (s *csrSuite) tok(a common.Address) string         { return s.w.Alias(accOf(a)) }

func (s *csrSuite) newWorld(withTurnstile, huge bool) {
	now := time.Unix(1_700_000_000+int64(s.r.Intn(1000)), 0)
	s.denom = evmtypes.DefaultEVMDenom
	// ordinary worlds keep the total supply far below 2^255; a "huge" world holds 1.5 * 2^255 so that fees next to the
	// 256-bit / LegacyDec limits can actually be paid
	rich := pow2(230)
	if huge {
		rich = pow2(255).Add(pow2(254))
	}
	s.huge = huge
	funds := func(i int) sdk.Coins {
		if i == 0 {
			return sdk.NewCoins(sdk.NewCoin(s.denom, rich), sdk.NewCoin("stake", pow10(30)))
		}
		return sdk.NewCoins(sdk.NewCoin(s.denom, pow2(200)), sdk.NewCoin("stake", pow10(24)))
	}
	// NewWorld funds every user alike; top up user 0 afterwards from a genesis balance of its own
	s.w = newWorldPerUser(5, funds, now)
	w := s.w
	if d := w.App.EvmKeeper.GetParams(w.Ctx).EvmDenom; d != s.denom {
		panic("unexpected evm denom " + d)
	}
	csrPrepareCtx(w)
	kb := make([]byte, 32)
	for i := range kb {
		kb[i] = byte(s.r.Next())
	}
	kb[0] |= 1
	kb[0] &= 0x7f
	s.key = &ethsecp256k1.PrivKey{Key: kb}
	s.keyAddr = common.BytesToAddress(s.key.PubKey().Address().Bytes())
	s.alias(s.keyAddr, "k0")
	w.App.AccountKeeper.SetAccount(w.Ctx, w.App.AccountKeeper.NewAccountWithAddress(w.Ctx, accOf(s.keyAddr)))
	s.ms = csrkeeper.NewMsgServerImpl(w.App.CSRKeeper)
	s.callers, s.foreign, s.coded, s.plain = nil, nil, nil, nil
	s.ids = append([]uint64{}, csrIDPool...)
	s.nChild = 0
	s.alias(common.Address{}, "zero")
	s.hasTs = withTurnstile
	u := func(i int) common.Address { return common.BytesToAddress(w.Users[i].Bytes()) }
	if withTurnstile {
		s.ts = csrDeployTurnstile(w)
		s.alias(s.ts, "ts")
		ts2, err := w.App.CSRKeeper.DeployTurnstile(w.Ctx)
		if err != nil {
			panic(err)
		}
		s.ts2 = ts2
		s.alias(ts2, "ts2")
		s.factory = evmDeploy(w, u(1), csrFactoryContract, s.ts)
		s.alias(s.factory, "fac")
		for i := 0; i < 14; i++ {
			c := evmDeploy(w, u(1+i%3), csrCsrSmartContract, s.ts)
			s.alias(c, fmt.Sprintf("c%d", i))
			s.callers = append(s.callers, c)
			s.coded = append(s.coded, c)
		}
		for i := 0; i < 2; i++ {
			c := evmDeploy(w, u(2), csrCsrSmartContract, s.ts2)
			s.alias(c, fmt.Sprintf("d%d", i))
			s.foreign = append(s.foreign, c)
			s.coded = append(s.coded, c)
		}
		s.coded = append(s.coded, s.ts, s.ts2, s.factory)
		if huge {
			// a record as a genesis import may contain it: revenue next to 2^256, transaction count next to 2^64
			c := s.callers[len(s.callers)-1]
			s.callers = s.callers[:len(s.callers)-1]
			rev := sdkmath.NewIntFromBigInt(new(big.Int).Sub(new(big.Int).Lsh(big.NewInt(1), 256), big.NewInt(int64(1+s.r.Intn(2000)))))
			w.App.CSRKeeper.SetCSR(w.Ctx, csrtypes.CSR{Contracts: []string{c.String()}, Id: 9, Txs: math.MaxUint64 - uint64(s.r.Intn(3)), Revenue: rev})
		}
	} else {
		// CSR enabled by parameter but no Turnstile ever deployed (BeginBlock has not run)
		p := w.App.CSRKeeper.GetParams(w.Ctx)
		p.EnableCsr = true
		w.App.CSRKeeper.SetParams(w.Ctx, p)
		s.ts, s.ts2 = common.BytesToAddress([]byte("no-turnstile-here")), common.BytesToAddress([]byte("no-turnstile-2"))
		s.alias(s.ts, "ts")
		s.alias(s.ts2, "ts2")
	}
	for i := 0; i < 4; i++ {
		a := common.BytesToAddress([]byte(fmt.Sprintf("nocode-%d-%d", i, s.r.Intn(1000))))
		s.alias(a, fmt.Sprintf("n%d", i))
		s.plain = append(s.plain, a)
	}
	s.plain = append(s.plain, u(3), u(4), common.Address{}, csrtypes.ModuleAddress)
	s.setParamsDirect(true, s.randShare(false))
}

// newWorldPerUser is NewWorld with a per-user genesis balance.
func newWorldPerUser(n int, funds func(i int) sdk.Coins, t time.Time) *World {
	w := NewWorld(n, funds(1), t)
	// user 0 gets the difference by a mint into a module with the Minter permission, before anything is observed
	extra := funds(0).Sub(funds(1)...)
	if err := w.App.BankKeeper.MintCoins(w.Ctx, csrtypes.ModuleName, extra); err != nil {
		panic(err)
	}
	if err := w.App.BankKeeper.SendCoinsFromModuleToAccount(w.Ctx, csrtypes.ModuleName, w.Users[0], extra); err != nil {
		panic(err)
	}
	return w
}

// setParamsDirect: world set-up, not an observed operation. The param store validates (panics): a share the repository's
// validation refuses falls back to the default share, so that a stricter validation shows up as a disagreement on a
// `setparams` operation rather than as a crash of the harness.
func (s *csrSuite) setParamsDirect(en bool, share sdkmath.LegacyDec) {
	defer func() {
		if r := recover(); r != nil {
			s.w.App.CSRKeeper.SetParams(s.w.Ctx, csrtypes.Params{EnableCsr: en, CsrShares: csrtypes.DefaultCSRShares})
		}
	}()
	s.w.App.CSRKeeper.SetParams(s.w.Ctx, csrtypes.Params{EnableCsr: en, CsrShares: share})
}

func (s *csrSuite) randShare(invalidToo bool) sdkmath.LegacyDec {
	r := s.r
	one := sdkmath.LegacyOneDec()
	eps := sdkmath.LegacySmallestDec()
	if invalidToo && r.Intn(6) == 0 {
		switch r.Intn(4) {
		case 0:
			return one.Add(eps)
		case 1:
			return sdkmath.LegacyNewDec(2)
		case 2:
			return eps.Neg()
		default:
			return sdkmath.LegacyDec{}
		}
	}
	if s.huge && r.Intn(2) == 0 { // large shares make large fees reach the LegacyDec range
		return []sdkmath.LegacyDec{one, one.Sub(eps), sdkmath.LegacyNewDecWithPrec(95, 2), sdkmath.LegacyNewDecWithPrec(8, 1)}[r.Intn(4)]
	}
	switch r.Intn(10) {
	case 0:
		return sdkmath.LegacyZeroDec()
	case 1:
		return eps
	case 2, 3:
		return sdkmath.LegacyNewDecWithPrec(2, 1)
	case 4:
		return one.Sub(eps)
	case 5:
		return one
	case 6:
		return sdkmath.LegacyNewDecWithPrec(5, 1)
	default:
		return sdkmath.LegacyNewDecFromBigIntWithPrec(r.Big(62).Mod(pow10(18).AddRaw(1)).BigInt(), 18)
	}
}

// ---------- state on the trace ----------

func (s *csrSuite) envLine() string {
	w := s.w
	return fmt.Sprintf("E mod=%s fc=%s evm=%s zero=zero denom=%s",
		w.Alias(authtypes.NewModuleAddress(csrtypes.ModuleName)), w.Alias(authtypes.NewModuleAddress(authtypes.FeeCollectorName)),
		w.Alias(authtypes.NewModuleAddress(evmtypes.ModuleName)), s.denom)
}

func (s *csrSuite) modState() string {
	w := s.w
	p := w.App.CSRKeeper.GetParams(w.Ctx)
	en := 0
	if p.EnableCsr {
		en = 1
	}
	d := dumpCsrStore(w, w.Ctx)
	tsTok, mf := "none", 0
	var tsb []string
	if ts, ok := w.App.CSRKeeper.GetTurnstile(w.Ctx); ok {
		tsTok = s.tok(ts)
		if bytes.Compare(csrtypes.ModuleAddress.Bytes(), ts.Bytes()) < 0 {
			mf = 1
		}
		seen := map[uint64]bool{}
		for _, id := range s.ids {
			seen[id] = true
		}
		for _, id := range d.Ids { // every NFT id of the registry is observed from the moment it appears
			if !seen[id] {
				seen[id] = true
				s.ids = append(s.ids, id)
			}
		}
		for _, id := range s.ids {
			if b := turnstileBalance(w, w.Ctx, ts, id); b.Sign() != 0 {
				tsb = append(tsb, fmt.Sprintf("%d:%s", id, b.String()))
			}
		}
	}
	// the registry as the keeper's point lookups answer (GetNFTByContract, then GetCSR of the answer), for every address with
	// code or without that the harness knows and every address the raw index names: they must agree with the raw store
	var lk []string
	probed := map[common.Address]bool{}
	probe := func(a common.Address) {
		if probed[a] {
			return
		}
		probed[a] = true
		id, found := w.App.CSRKeeper.GetNFTByContract(w.Ctx, a.String())
		if !found {
			return // absent entries are implied
		}
		_, has := w.App.CSRKeeper.GetCSR(w.Ctx, id)
		h := 0
		if has {
			h = 1
		}
		lk = append(lk, fmt.Sprintf("%s~%d~%d", s.tok(a), id, h))
	}
	for _, a := range s.coded {
		probe(a)
	}
	for _, a := range s.plain {
		probe(a)
	}
	sort.Strings(lk)
	return fmt.Sprintf("en=%d share=%s ts=%s mf=%d csrs=%s idx=%s tsb=%s lk=%s", en, p.CsrShares.BigInt().String(), tsTok, mf,
		d.Csrs, d.Idx, strings.Join(tsb, ","), strings.Join(lk, ","))
}

func (s *csrSuite) sync() { s.t.Line("S " + s.modState() + " " + s.w.Snapshot().Full()) }

func csrKvDelta(pre, post string) string {
	if pre == post {
		return ""
	}
	pm := map[string]string{}
	for _, kv := range strings.Fields(pre) {
		i := strings.Index(kv, "=")
		pm[kv[:i]] = kv[i+1:]
	}
	var out []string
	for _, kv := range strings.Fields(post) {
		i := strings.Index(kv, "=")
		if pm[kv[:i]] != kv[i+1:] {
			out = append(out, kv)
		}
	}
	return strings.Join(out, " ")
}

func (s *csrSuite) emit(kind, args string, out Outcome, preMod string, pre Snap) {
	s.t.seq++
	post := s.w.Snapshot()
	s.t.Line(fmt.Sprintf("O %d %s %s => %s | %s %s", s.t.seq, kind, args, out.String(), csrKvDelta(preMod, s.modState()), Delta(pre, post)))
	s.stat[kind+":"+out.String()]++
	if out.Class == "panic" {
		m := out.Err
		if len(m) > 40 {
			m = m[:40]
		}
		s.stat["panicmsg:"+kind+":"+m]++
	}
}

// ---------- registry as the harness sees it (to aim the generator) ----------

type csrView struct {
	ids        []uint64
	registered []common.Address
	isReg      map[common.Address]bool
}

func (s *csrSuite) view() csrView {
	v := csrView{isReg: map[common.Address]bool{}}
	for _, c := range s.w.App.CSRKeeper.GetAllCSRs(s.w.Ctx) {
		v.ids = append(v.ids, c.Id)
		for _, a := range c.Contracts {
			ad := common.HexToAddress(a)
			v.registered = append(v.registered, ad)
			v.isReg[ad] = true
		}
	}
	return v
}

func (s *csrSuite) unregisteredCoded(v csrView) []common.Address {
	var out []common.Address
	for _, c := range s.coded {
		if !v.isReg[c] {
			out = append(out, c)
		}
	}
	return out
}

func pickAddr(r *Rng, xs []common.Address) common.Address { return xs[r.Intn(len(xs))] }

// ---------- forged logs ----------

func (s *csrSuite) pickID(v csrView, wantUsed bool) *big.Int {
	r := s.r
	used := map[uint64]bool{}
	for _, id := range v.ids {
		used[id] = true
	}
	var cand []uint64
	for _, id := range csrIDPool {
		if used[id] == wantUsed {
			cand = append(cand, id)
		}
	}
	if len(cand) == 0 {
		cand = csrIDPool
	}
	id := new(big.Int).SetUint64(cand[r.Intn(len(cand))])
	switch r.Intn(12) {
	case 0: // same low 64 bits, larger uint256
		id.Add(id, pow2(64).BigInt())
	case 1:
		id.Add(id, pow2(255).BigInt())
	}
	return id
}

func (s *csrSuite) pickContract(v csrView) common.Address {
	r := s.r
	un := s.unregisteredCoded(v)
	switch k := r.Intn(20); {
	case k < 11 && len(un) > 0:
		return pickAddr(r, un)
	case k < 13 && len(v.registered) > 0:
		return pickAddr(r, v.registered)
	case k < 17:
		return pickAddr(r, s.plain)
	case k < 18:
		return common.Address{}
	default:
		if len(s.coded) > 0 {
			return pickAddr(r, s.coded)
		}
		return pickAddr(r, s.plain)
	}
}

func (s *csrSuite) genLog(v csrView) *ethtypes.Log {
	r := s.r
	abi := contracts.TurnstileContract.ABI
	regEv, asgEv := abi.Events[csrtypes.TurnstileEventRegister], abi.Events[csrtypes.TurnstileEventUpdate]
	var em common.Address
	switch k := r.Intn(20); {
	case k < 14:
		em = s.ts
	case k < 16:
		em = s.ts2
	case k < 17:
		em = common.Address{}
	case k < 18:
		em = csrtypes.ModuleAddress
	default:
		em = s.pickContract(v)
	}
	kind := ""
	var topics []common.Hash
	switch k := r.Intn(40); {
	case k < 16:
		kind, topics = "reg", []common.Hash{regEv.ID}
	case k < 30:
		kind, topics = "asg", []common.Hash{asgEv.ID}
	case k < 33:
		names := []string{"Transfer", "DistributeFees", "Withdraw", "OwnershipTransferred", "Approval"}
		topics = []common.Hash{abi.Events[names[r.Intn(len(names))]].ID}
		kind = []string{"reg", "asg"}[r.Intn(2)] // payload shaped like a registry event all the same
	case k < 36:
		h := regEv.ID
		if r.Intn(2) == 0 {
			h = asgEv.ID
		}
		h[r.Intn(32)] ^= byte(1 << uint(r.Intn(8)))
		topics = []common.Hash{h}
		kind = []string{"reg", "asg"}[r.Intn(2)]
	case k < 38:
		kind = []string{"reg", "asg"}[r.Intn(2)]
	default:
		kind = []string{"reg", "asg"}[r.Intn(2)]
		id := regEv.ID
		if kind == "asg" {
			id = asgEv.ID
		}
		topics = []common.Hash{id, common.BytesToHash(s.ts.Bytes()), common.BigToHash(big.NewInt(int64(r.Intn(5))))}
	}
	c := s.pickContract(v)
	var data []byte
	var err error
	layout := kind
	if r.Intn(25) == 0 { // the other event's layout under this topic
		if layout == "reg" {
			layout = "asg"
		} else {
			layout = "reg"
		}
	}
	if layout == "reg" {
		data, err = regEv.Inputs.Pack(c, pickAddr(r, s.plain), s.pickID(v, r.Intn(5) == 0))
	} else {
		data, err = asgEv.Inputs.Pack(c, s.pickID(v, r.Intn(5) != 0))
	}
	if err != nil {
		panic(err)
	}
	switch r.Intn(30) {
	case 0:
		data = data[:len(data)-1]
	case 1:
		data = data[:len(data)-32]
	case 2:
		data = data[:32]
	case 3:
		data = nil
	case 4:
		data = append(data, make([]byte, 32)...)
	case 5: // dirty high bytes in the address word
		data[r.Intn(12)] = byte(1 + r.Intn(255))
	case 6:
		data = data[:r.Intn(len(data)+1)]
	case 7: // trailing bytes that do not fill a word
		data = append(data, make([]byte, 1+r.Intn(31))...)
	}
	return &ethtypes.Log{Address: em, Topics: topics, Data: data}
}

func (s *csrSuite) genLogs(v csrView) []*ethtypes.Log {
	n := 0
	switch k := s.r.Intn(20); {
	case k < 8:
		n = 0
	case k < 14:
		n = 1
	case k < 17:
		n = 2
	default:
		n = 3 + s.r.Intn(4)
	}
	var out []*ethtypes.Log
	for i := 0; i < n; i++ {
		out = append(out, s.genLog(v))
	}
	return out
}

// ---------- numbers ----------

func (s *csrSuite) genGasUsed() uint64 {
	r := s.r
	switch r.Intn(16) {
	case 0:
		return 0
	case 1, 2:
		return 1
	case 3, 4:
		return uint64(2 + r.Intn(1000))
	case 5, 6, 7, 8:
		return uint64(21000 + r.Intn(5_000_000))
	case 9:
		return 1 << 63
	case 10:
		return 1<<63 - 1 + uint64(r.Intn(3))
	case 11:
		return math.MaxUint64
	case 12:
		return r.Next()
	default:
		return uint64(1 + r.Intn(100000))
	}
}

func (s *csrSuite) genGasPrice() *big.Int {
	r := s.r
	switch r.Intn(32) {
	case 0, 1:
		return big.NewInt(0)
	case 2, 3, 4:
		return big.NewInt(1)
	case 5, 6, 7, 8:
		return big.NewInt(int64(2 + r.Intn(1000)))
	case 9, 10, 11, 12, 13, 14, 15, 16:
		return new(big.Int).Mul(big.NewInt(1_000_000_000), big.NewInt(int64(1+r.Intn(1000))))
	case 17, 18:
		return pow2(63).AddRaw(int64(r.Intn(3) - 1)).BigInt()
	case 19, 20:
		return r.Big(100).BigInt()
	case 21:
		return r.Big(190).BigInt()
	case 22:
		return pow2(192).AddRaw(int64(r.Intn(3) - 1)).BigInt()
	case 23:
		switch r.Intn(3) {
		case 0:
			return new(big.Int).Sub(new(big.Int).Lsh(big.NewInt(1), 256), big.NewInt(1))
		case 1:
			return new(big.Int).Lsh(big.NewInt(1), 256)
		default:
			return new(big.Int).Lsh(big.NewInt(1), 300)
		}
	default:
		return big.NewInt(int64(1 + r.Intn(1_000_000)))
	}
}

// ---------- operations ----------

func (s *csrSuite) fcAddr() sdk.AccAddress { return authtypes.NewModuleAddress(authtypes.FeeCollectorName) }

func (s *csrSuite) opSend(src, dst sdk.AccAddress, d string, amt sdkmath.Int) {
	preMod, pre := s.modState(), s.w.Snapshot()
	out := s.w.Deliver(func(ctx sdk.Context) error {
		return s.w.App.BankKeeper.SendCoins(ctx, src, dst, sdk.NewCoins(sdk.NewCoin(d, amt)))
	})
	s.emit("send", fmt.Sprintf("src=%s dst=%s d=%s amt=%s", s.w.Alias(src), s.w.Alias(dst), tokenSafe(d), amt), out, preMod, pre)
}

// fund: bring the fee collector to (at least / just below) the fee of the coming transaction
func (s *csrSuite) fund(fee *big.Int) int {
	r := s.r
	w := s.w
	if fee.BitLen() > 256 {
		return 0
	}
	cur := w.App.BankKeeper.GetBalance(w.Ctx, s.fcAddr(), s.denom).Amount
	need := sdkmath.NewIntFromBigInt(fee).Sub(cur)
	if !need.IsPositive() {
		return 0
	}
	switch k := r.Intn(28); {
	case k < 2:
		return 0 // leave it short
	case k < 4:
		need = need.SubRaw(1) // one unit short
	case k < 8:
		// exactly the fee
	case k < 10:
		need = need.AddRaw(1)
	default:
		// enough for a few transactions of this size
		if need.BigInt().BitLen() < 240 {
			need = need.MulRaw(int64(2 + r.Intn(6)))
		}
	}
	if !need.IsPositive() {
		return 0
	}
	rich := w.Users[0]
	if w.App.BankKeeper.GetBalance(w.Ctx, rich, s.denom).Amount.LT(need) {
		return 0
	}
	s.opSend(rich, s.fcAddr(), s.denom, need)
	return 1
}

// one hooks value per application instance, for its lifetime, as app.go wires it
var csrHooksOf = map[*World]csrkeeper.Hooks{}

func (s *csrSuite) csrHooks(w *World) csrkeeper.Hooks {
	h, ok := csrHooksOf[w]
	if !ok {
		for k := range csrHooksOf {
			delete(csrHooksOf, k) // older worlds are gone
		}
		h = w.App.CSRKeeper.Hooks()
		csrHooksOf[w] = h
	}
	return h
}

func (s *csrSuite) runHook(to *common.Address, gasUsed uint64, gasPrice *big.Int, logs []*ethtypes.Log) {
	w := s.w
	from := common.BytesToAddress(w.Users[1].Bytes())
	// the other numbers a message carries are different from the two the hook must use
	gasLimit := gasUsed
	if gasUsed < math.MaxUint64-100_000 {
		gasLimit = gasUsed + uint64(1+s.r.Intn(100_000))
	}
	feeCap := new(big.Int).Add(new(big.Int).Mul(gasPrice, big.NewInt(2)), big.NewInt(7))
	tipCap := new(big.Int).Div(gasPrice, big.NewInt(3))
	msg := ethtypes.NewMessage(from, to, uint64(s.r.Intn(1000)), big.NewInt(int64(s.r.Intn(3))), gasLimit, gasPrice, feeCap, tipCap, nil, ethtypes.AccessList{}, true)
	receipt := &ethtypes.Receipt{Logs: logs, GasUsed: gasUsed, Status: ethtypes.ReceiptStatusSuccessful}
	if to == nil {
		// a creation receipt names the created contract: one that registers itself in this very receipt (its constructor
		// called the Turnstile), an already registered one, or any contract. The hook must burn the whole fee regardless.
		v := s.view()
		switch k := s.r.Intn(10); {
		case k < 5 && len(logs) > 0:
			l := logs[s.r.Intn(len(logs))]
			if len(l.Data) >= 32 {
				receipt.ContractAddress = common.BytesToAddress(l.Data[:32])
			}
		case k < 8 && len(v.registered) > 0:
			receipt.ContractAddress = pickAddr(s.r, v.registered)
		default:
			receipt.ContractAddress = s.pickContract(v)
		}
	}
	toTok := "nil"
	if to != nil {
		toTok = s.tok(*to)
	}
	args := fmt.Sprintf("to=%s gu=%d gp=%s logs=%s", toTok, gasUsed, gasPrice.String(), logsTok(w, w.Ctx, logs))
	via := s.r.Intn(2)
	preMod, pre := s.modState(), w.Snapshot()
	out := w.Deliver(func(ctx sdk.Context) error {
		if via == 0 {
			return s.csrHooks(w).PostTxProcessing(ctx, msg, receipt)
		}
		// through the EVM keeper's hook chain (erc20 hook, then csr hook), as ApplyTransaction does
		return w.App.EvmKeeper.PostTxProcessing(ctx, msg, receipt)
	})
	s.emit("hook", args, out, preMod, pre)
}

func (s *csrSuite) pickTo(v csrView, logs []*ethtypes.Log) *common.Address {
	r := s.r
	var a common.Address
	switch k := r.Intn(100); {
	case k < 8:
		return nil
	case k < 55 && len(v.registered) > 0:
		a = pickAddr(r, v.registered)
	case k < 67 && len(logs) > 0:
		// the contract named by one of the receipt's own logs (registering itself in this very transaction)
		l := logs[r.Intn(len(logs))]
		if len(l.Data) >= 32 {
			a = common.BytesToAddress(l.Data[:32])
		} else {
			a = s.pickContract(v)
		}
	case k < 80:
		if un := s.unregisteredCoded(v); len(un) > 0 {
			a = pickAddr(r, un)
		} else {
			a = pickAddr(r, s.plain)
		}
	case k < 90:
		a = pickAddr(r, s.plain)
	case k < 94:
		a = s.ts
	default:
		a = s.pickContract(v)
	}
	return &a
}

// opHook: one forged receipt. Returns the number of operations written (funding transfers included).
func (s *csrSuite) opHook(genuine []*ethtypes.Log, to *common.Address) int {
	r := s.r
	v := s.view()
	var logs []*ethtypes.Log
	if genuine != nil {
		logs = genuine
		if r.Intn(3) == 0 { // forged logs around the genuine ones
			logs = append(append(s.genLogs(v), genuine...), s.genLogs(v)...)
		}
	} else {
		logs = s.genLogs(v)
		to = s.pickTo(v, logs)
	}
	gu, gp := s.genGasUsed(), s.genGasPrice()
	if s.huge && r.Intn(6) == 0 { // a fee next to the LegacyDec range: 2^255 .. 1.25 * 2^255
		gu, gp = 1<<63, pow2(192).Add(r.Big(190)).BigInt()
	}
	n := 0
	if s.w.App.CSRKeeper.GetParams(s.w.Ctx).EnableCsr && gu != 0 {
		n += s.fund(new(big.Int).Mul(new(big.Int).SetUint64(gu), gp))
	}
	s.runHook(to, gu, gp, logs)
	return n + 1
}

// opCall: a user transaction to a contract that calls Turnstile.register / assign on the real EVM; the receipt handed to the
// hook carries the logs the EVM produced.
func (s *csrSuite) opCall() int {
	r := s.r
	w := s.w
	if !s.hasTs {
		return s.opHook(nil, nil)
	}
	user := common.BytesToAddress(w.Users[1+r.Intn(4)].Bytes())
	recipient := common.BytesToAddress(w.Users[r.Intn(5)].Bytes())
	counter := func() uint64 {
		cctx, _ := w.Ctx.CacheContext()
		res, err := w.App.CSRKeeper.CallMethod(cctx, "currentCounterId", contracts.TurnstileContract, csrtypes.ModuleAddress, &s.ts, big.NewInt(0))
		if err != nil {
			panic(err)
		}
		out, _ := contracts.TurnstileContract.ABI.Unpack("currentCounterId", res.Ret)
		return out[0].(*big.Int).Uint64()
	}()
	assignID := big.NewInt(int64(r.Intn(int(counter) + 2))) // sometimes an id the Turnstile has not minted: reverts
	var target common.Address
	var data []byte
	var err error
	useFactory := r.Intn(4) == 0 || len(s.callers) == 0
	doAssign := counter > 0 && r.Intn(2) == 0
	abi := csrCsrSmartContract.ABI
	switch {
	case r.Intn(8) == 0 && len(s.foreign) > 0:
		target = pickAddr(r, s.foreign) // bound to the other Turnstile: same topics, other emitter
	case useFactory:
		target = s.factory
		abi = csrFactoryContract.ABI
	default:
		i := r.Intn(len(s.callers))
		target = s.callers[i]
		s.callers = append(s.callers[:i:i], s.callers[i+1:]...)
	}
	if doAssign {
		data, err = abi.Pack("assign", assignID)
	} else {
		data, err = abi.Pack("register", recipient)
	}
	if err != nil {
		panic(err)
	}
	res, _, cerr := evmApply(w, user, &target, data)
	s.stat["evmcall:"+map[bool]string{true: "ok", false: "reverted"}[cerr == nil]]++
	var logs []*ethtypes.Log
	if cerr == nil {
		logs = evmtypes.LogsToEthereum(res.Logs)
		// a child created by the factory: learn its address from the factory's own event
		for _, l := range logs {
			if l.Address == s.factory && len(l.Data) == 32 {
				child := common.BytesToAddress(l.Data)
				s.alias(child, fmt.Sprintf("f%d", s.nChild))
				s.nChild++
				s.coded = append(s.coded, child)
			}
		}
	} else {
		logs = []*ethtypes.Log{}
	}
	s.sync() // the EVM call itself is not an observed operation: re-synchronise
	return s.opHook(logs, &target)
}

// opEthTx: a signed Ethereum transaction through the real message server (EvmKeeper.EthereumTx → ApplyTransaction → the
// erc20 and csr hooks on the receipt ethermint builds → gas refund). What the hook was given is taken from a dry run of the
// same message; the refund ethermint pays afterwards (leftover gas × price, fee collector → sender) is written on the line so
// that the driver can take it out of the observed ledger before comparing with the model of the hook.
func (s *csrSuite) opEthTx() int {
	r := s.r
	w := s.w
	if !s.hasTs || !w.App.CSRKeeper.GetParams(w.Ctx).EnableCsr {
		return s.opHook(nil, nil)
	}
	var target common.Address
	var data []byte
	var err error
	recipient := common.BytesToAddress(w.Users[r.Intn(5)].Bytes())
	switch k := r.Intn(10); {
	case k < 4 && len(s.callers) > 0:
		i := r.Intn(len(s.callers))
		target = s.callers[i]
		s.callers = append(s.callers[:i:i], s.callers[i+1:]...)
		data, err = csrCsrSmartContract.ABI.Pack("register", recipient)
	case k < 8:
		target = s.factory // registers a fresh child every time; the factory itself may be registered (then the fee is split)
		data, err = csrFactoryContract.ABI.Pack("register", recipient)
	default:
		target = s.ts // a plain call of the Turnstile (which a forged receipt may have registered)
		data, err = contracts.TurnstileContract.ABI.Pack("currentCounterId")
	}
	if err != nil {
		panic(err)
	}
	gasLimit := uint64(1_500_000 + r.Intn(1_000_000))
	gasPrice := []*big.Int{big.NewInt(0), big.NewInt(1), big.NewInt(7), big.NewInt(1_000_000_000), big.NewInt(25_000_000_000)}[r.Intn(5)]
	nonce := w.App.EvmKeeper.GetNonce(w.Ctx, s.keyAddr)
	// dry run: what the EVM will produce
	dryRun := func(limit uint64) (sdk.Context, *evmtypes.MsgEthereumTxResponse, bool) {
		dry, _ := w.Ctx.CacheContext()
		dmsg := ethtypes.NewMessage(s.keyAddr, &target, nonce, big.NewInt(0), limit, gasPrice, gasPrice, gasPrice, data, ethtypes.AccessList{}, false)
		res, derr := w.App.EvmKeeper.ApplyMessage(dry, dmsg, evmtypes.NewNoOpTracer(), true)
		return dry, res, derr == nil && !res.Failed()
	}
	// one transaction in ten is meant to be failed by the hook: the fee collector is left one unit short of the fee. That
	// needs fee > refund (ethermint still refunds the leftover gas), i.e. a gas limit below twice the gas used.
	wantFail := gasPrice.Sign() > 0 && r.Intn(10) == 0
	if wantFail {
		wantFail = false
		for _, l := range []uint64{250_000, 400_000, 600_000, 900_000, 1_300_000} {
			if _, res, ok := dryRun(l); ok && res.GasUsed > l/2 {
				gasLimit, wantFail = l, true
				break
			}
		}
	}
	dry, res0, ok := dryRun(gasLimit)
	if !ok {
		s.stat["ethtx:evm-reverted"]++
		return s.opHook(nil, nil)
	}
	logs := evmtypes.LogsToEthereum(res0.Logs)
	for _, l := range logs {
		if l.Address == s.factory && len(l.Data) == 32 {
			child := common.BytesToAddress(l.Data)
			s.alias(child, fmt.Sprintf("f%d", s.nChild))
			s.nChild++
			s.coded = append(s.coded, child)
		}
	}
	logTok := logsTok(w, dry, logs) // code existence as the hook will see it: after the message ran
	// the ante handler's part: gasLimit * gasPrice goes to the fee collector before the message runs
	n := 0
	upfront := sdkmath.NewIntFromBigInt(new(big.Int).Mul(new(big.Int).SetUint64(gasLimit), gasPrice))
	fee := sdkmath.NewIntFromBigInt(new(big.Int).Mul(new(big.Int).SetUint64(res0.GasUsed), gasPrice))
	cur := w.App.BankKeeper.GetBalance(w.Ctx, s.fcAddr(), s.denom).Amount
	switch {
	case wantFail:
		short := fee.SubRaw(1)
		if cur.GT(short) {
			s.opSend(s.fcAddr(), w.Users[0], s.denom, cur.Sub(short))
			n++
		} else if cur.LT(short) {
			s.opSend(w.Users[0], s.fcAddr(), s.denom, short.Sub(cur))
			n++
		}
	case upfront.IsPositive() && (cur.LT(upfront) || r.Intn(2) == 0):
		s.opSend(w.Users[0], s.fcAddr(), s.denom, upfront)
		n++
	}
	// sign and deliver
	signer := ethtypes.LatestSignerForChainID(w.App.EvmKeeper.ChainID())
	raw := ethtypes.NewTx(&ethtypes.LegacyTx{Nonce: nonce, GasPrice: gasPrice, Gas: gasLimit, To: &target, Value: big.NewInt(0), Data: data})
	sig, err := s.key.Sign(signer.Hash(raw).Bytes())
	if err != nil {
		panic(err)
	}
	signed, err := raw.WithSignature(signer, sig)
	if err != nil {
		panic(err)
	}
	tx := &evmtypes.MsgEthereumTx{}
	if err := tx.FromEthereumTx(signed); err != nil {
		panic(err)
	}
	tx.From = s.keyAddr.Hex()
	preMod, pre := s.modState(), w.Snapshot()
	var res *evmtypes.MsgEthereumTxResponse
	out := w.Deliver(func(ctx sdk.Context) error {
		rr, err := w.App.EvmKeeper.EthereumTx(ctx, tx)
		res = rr
		return err
	})
	gasUsed := res0.GasUsed
	refund := big.NewInt(0)
	switch {
	case !out.OK:
		// a panic inside a hook (a 256-bit overflow in a "huge" world) comes up through the message server; baseapp's runTx
		// would recover it and fail the transaction: nothing is written, nothing is refunded
		if out.Class != "panic" {
			panic("EthereumTx returned an error: " + out.Err)
		}
	case res.VmError == evmtypes.ErrPostTxProcessing.Error():
		out = Outcome{OK: false, Class: "evm/post-tx-processing"} // a hook failed: ethermint reverted the transaction
		refund = new(big.Int).Mul(new(big.Int).SetUint64(gasLimit-res.GasUsed), gasPrice)
	case res.Failed():
		panic("transaction failed in the EVM after a successful dry run: " + res.VmError)
	default:
		if res.GasUsed != res0.GasUsed {
			panic(fmt.Sprintf("gas used differs from the dry run: %d vs %d", res.GasUsed, res0.GasUsed))
		}
		refund = new(big.Int).Mul(new(big.Int).SetUint64(gasLimit-res.GasUsed), gasPrice)
	}
	args := fmt.Sprintf("to=%s gu=%d gp=%s logs=%s refund=%s rto=%s", s.tok(target), gasUsed, gasPrice.String(), logTok, refund.String(), s.tok(s.keyAddr))
	s.emit("hook", args, out, preMod, pre)
	s.stat["ethtx:"+out.String()]++
	return n + 1
}

func (s *csrSuite) opParams() int {
	r := s.r
	w := s.w
	auth := authtypes.NewModuleAddress(govtypes.ModuleName).String()
	authTok := 1
	if r.Intn(8) == 0 {
		auth, authTok = w.Users[r.Intn(5)].String(), 0
	}
	en := r.Intn(8) != 0
	if !w.App.CSRKeeper.GetParams(w.Ctx).EnableCsr {
		en = r.Intn(8) != 0 || en // a disabled module is mostly switched on again
	}
	return s.updateParams(auth, authTok, en, s.randShare(true))
}

func (s *csrSuite) updateParams(auth string, authTok int, en bool, share sdkmath.LegacyDec) int {
	w := s.w
	shareTok := "nil"
	if !share.IsNil() {
		shareTok = share.BigInt().String()
	}
	enTok := 0
	if en {
		enTok = 1
	}
	msg := &csrtypes.MsgUpdateParams{Authority: auth, Params: csrtypes.Params{EnableCsr: en, CsrShares: share}}
	preMod, pre := s.modState(), w.Snapshot()
	out := w.Deliver(func(ctx sdk.Context) error {
		_, err := s.ms.UpdateParams(ctx, msg)
		return err
	})
	s.emit("setparams", fmt.Sprintf("auth=%d en=%d share=%s", authTok, enTok, shareTok), out, preMod, pre)
	return 1
}

func (s *csrSuite) opFund() int {
	r := s.r
	w := s.w
	var amt sdkmath.Int
	switch r.Intn(4) {
	case 0:
		amt = sdkmath.NewInt(int64(1 + r.Intn(1000)))
	case 1:
		amt = pow10(18).MulRaw(int64(1 + r.Intn(1000)))
	case 2:
		amt = r.Big(120).AddRaw(1)
	default:
		amt = pow10(9).MulRaw(int64(1 + r.Intn(1_000_000)))
	}
	d := s.denom
	if r.Intn(6) == 0 {
		d = "stake"
		amt = sdkmath.NewInt(int64(1 + r.Intn(1000)))
	}
	dst := s.fcAddr()
	if r.Intn(8) == 0 { // a donation to the csr module account: it must stay there
		dst = authtypes.NewModuleAddress(csrtypes.ModuleName)
	}
	s.opSend(w.Users[r.Intn(2)], dst, d, amt)
	return 1
}

// edgeScenario (worlds with a 1.5 * 2^255 supply): share 1, a freshly registered contract, and fees exactly at, above and
// below the point where LegacyNewDecFromInt(fee).Mul(share) leaves the 315-bit range (fee * 10^18 >= 2^315).
func (s *csrSuite) edgeScenario() int {
	w := s.w
	n := s.updateParams(authtypes.NewModuleAddress(govtypes.ModuleName).String(), 1, true, sdkmath.LegacyOneDec())
	v := s.view()
	un := s.unregisteredCoded(v)
	if len(un) == 0 {
		return n
	}
	c := un[0]
	ev := contracts.TurnstileContract.ABI.Events[csrtypes.TurnstileEventRegister]
	data, err := ev.Inputs.Pack(c, common.BytesToAddress(w.Users[2].Bytes()), s.pickID(v, false))
	if err != nil {
		panic(err)
	}
	s.runHook(&c, 0, big.NewInt(1), []*ethtypes.Log{{Address: s.ts, Topics: []common.Hash{ev.ID}, Data: data}})
	n++
	bound := new(big.Int).Lsh(big.NewInt(1), 315)
	feeB := new(big.Int).Div(bound, pow10(18).BigInt())
	feeB.Add(feeB, big.NewInt(1)) // the least fee with fee * 10^18 >= 2^315 (2^315 is not a multiple of 10^18)
	s.opSend(w.Users[0], s.fcAddr(), s.denom, sdkmath.NewIntFromBigInt(feeB).AddRaw(int64(5+s.r.Intn(100))))
	n++
	for _, d := range []int64{1, 0, -1} {
		s.runHook(&c, 1, new(big.Int).Add(feeB, big.NewInt(d)), nil)
		n++
	}
	return n
}

func init() { suites["csr"] = runCsr }

func runCsr(seed uint64, nOps int, outPath string) map[string]int {
	s := &csrSuite{r: SeedRng("csr", seed), stat: map[string]int{}}
	s.t = NewTrace(outPath)
	defer s.t.Close()
	done := 0
	world := 0
	for done < nOps {
		world++
		withTs := world%9 != 4
		s.newWorld(withTs, world%5 == 3)
		s.t.Line(s.envLine())
		s.sync()
		budget := 170
		if !withTs {
			budget = 12
		}
		if withTs && s.huge {
			done += s.edgeScenario()
		}
		for i := 0; i < budget && done < nOps; {
			var n int
			k := s.r.Intn(100)
			if !s.w.App.CSRKeeper.GetParams(s.w.Ctx).EnableCsr && s.r.Intn(3) == 0 {
				k = 85 // do not linger in the disabled state
			}
			switch {
			case k < 62:
				n = s.opHook(nil, nil)
			case k < 68:
				n = s.opEthTx()
			case k < 80:
				n = s.opCall()
			case k < 90:
				n = s.opParams()
			default:
				n = s.opFund()
			}
			i += n
			done += n
		}
	}
	return s.stat
}
