package main

// Suite "replica" (C06): four replicas of the real application over ONE generated block history.
//   A  continuous;
//   B  destroyed and re-created over the same database (app.NewCanto(..., sameDB, ...) + load latest version) at EVERY
//      block boundary;
//   C  serves reads between blocks: every Canto gRPC query, SDK and EVM queries (eth_call / estimateGas), CheckTx (new and
//      recheck) and Simulate of the next block's transactions and of random ones;
//   D  a second continuous replica in a separate OS process (this binary re-executed with `-suite replica-d`) with a
//      different GOMAXPROCS; Go's map iteration seed differs per process.
//   E  a replica over an on-disk database (goleveldb under .work) whose OS PROCESS is ended and started again at sampled
//      block boundaries (every 15..50 blocks): B's in-process re-creation cannot lose package-level variables, E does.
// Compared at every height: AppHash, the digest of every ExecTxResult (code, codespace, data, gas, events; the log text is
// excluded exactly as CometBFT excludes it from LastResultsHash) and of the block events; at sampled heights the digest of
// the whole exported application state (ExportAppStateAndValidators).
// The block history is written to <trace>.blocks (genesis + every block with its transactions): it is the replay.

import (
	"github.com/cosmos/cosmos-sdk/telemetry"
	"bufio"
	"crypto/sha256"
	"encoding/hex"
	"encoding/json"
	"fmt"
	"os"
	"os/exec"
	"path/filepath"
	"strings"
	"time"

	abci "github.com/cometbft/cometbft/abci/types"
	dbm "github.com/cosmos/cosmos-db"
	"github.com/cosmos/cosmos-sdk/crypto/keys/ed25519"
	sdk "github.com/cosmos/cosmos-sdk/types"
	banktypes "github.com/cosmos/cosmos-sdk/x/bank/types"
	"github.com/cosmos/gogoproto/proto"
	"github.com/ethereum/go-ethereum/common"
	"github.com/ethereum/go-ethereum/common/hexutil"
	evmtypes "github.com/evmos/ethermint/x/evm/types"

	"github.com/Canto-Network/Canto/v8/contracts"
)

func init() {
	suites["replica"] = runReplica
	suites["replica-d"] = runReplicaChild
	suites["replica-e"] = runReplicaSegment
}

type blockRec struct {
	Height int64    `json:"h"`
	TimeNs int64    `json:"t"`
	Txs    []string `json:"txs"`
	Kinds  []string `json:"kinds,omitempty"`
	Export bool     `json:"export,omitempty"`
}

type histHeader struct {
	Genesis   string `json:"genesis"` // hex of the app state bytes
	GenTimeNs int64  `json:"gentime"`
}

// digest of what a node answered for one block
func resultsDigest(res *abci.ResponseFinalizeBlock) string {
	h := sha256.New()
	for _, r := range res.TxResults {
		c := *r
		c.Log, c.Info = "", ""
		bz, err := proto.Marshal(&c)
		if err != nil {
			panic(err)
		}
		h.Write(bz)
		h.Write([]byte{0xff})
	}
	for _, e := range res.Events {
		ev := e
		bz, _ := proto.Marshal(&ev)
		h.Write(bz)
	}
	for _, v := range res.ValidatorUpdates {
		vv := v
		bz, _ := proto.Marshal(&vv)
		h.Write(bz)
	}
	return hex.EncodeToString(h.Sum(nil))[:16]
}

func exportDigest(n *Node) string {
	var out string
	func() {
		defer func() {
			if r := recover(); r != nil {
				out = "panic"
			}
		}()
		exp, err := n.App.ExportAppStateAndValidators(false, nil, nil)
		if err != nil {
			out = "err"
			return
		}
		s := sha256.Sum256(exp.AppState)
		out = hex.EncodeToString(s[:])[:16]
	}()
	return out
}

// ---------- replica C: reads between blocks ----------

func (s *rpSuite) reads(n *Node, next []TxSpec) int {
	a := n.App
	cnt := 0
	if a.LastBlockHeight() == 0 {
		return 0 // nothing is committed yet: there is no state to read
	}
	// every Canto gRPC service, on the list of objects the node itself reports
	sec, err := directSections(a, n.QueryCtx())
	if err == nil {
		if g, err := parseCantoGen(a.AppCodec(), sec); err == nil {
			qs := cantoQuerySpecs(g)
			runQueries(a, qs)
			cnt += len(qs)
		}
	}
	// SDK and EVM queries
	q := func(path string, req proto.Message) {
		bz, _ := proto.Marshal(req)
		func() {
			defer func() { recover() }()
			a.Query(nil, &abci.RequestQuery{Path: path, Data: bz})
		}()
		cnt++
	}
	u := s.cfg.Addrs[s.r.Intn(len(s.cfg.Addrs))]
	q("/cosmos.bank.v1beta1.Query/AllBalances", &banktypes.QueryAllBalancesRequest{Address: u.String()})
	q("/cosmos.bank.v1beta1.Query/TotalSupply", &banktypes.QueryTotalSupplyRequest{})
	q("/ethermint.evm.v1.Query/Balance", &evmtypes.QueryBalanceRequest{Address: common.BytesToAddress(u).Hex()})
	q("/ethermint.evm.v1.Query/BaseFee", &evmtypes.QueryBaseFeeRequest{})
	pairs := a.Erc20Keeper.GetTokenPairs(n.QueryCtx())
	if len(pairs) > 0 {
		p := pairs[s.r.Intn(len(pairs))]
		to := p.GetERC20Contract()
		from := common.BytesToAddress(u)
		data, _ := contracts.ERC20MinterBurnerDecimalsContract.ABI.Pack("balanceOf", from)
		hb := hexutil.Bytes(data)
		args, _ := json.Marshal(evmtypes.TransactionArgs{From: &from, To: &to, Data: &hb})
		q("/ethermint.evm.v1.Query/EthCall", &evmtypes.EthCallRequest{Args: args, GasCap: 5_000_000, ChainId: 7700, ProposerAddress: sdk.ConsAddress(n.consAddr())})
		// a state-changing call (transfer) evaluated as a read
		data2, _ := contracts.ERC20MinterBurnerDecimalsContract.ABI.Pack("transfer", common.BytesToAddress(s.cfg.Addrs[0]), common.Big1)
		hb2 := hexutil.Bytes(data2)
		args2, _ := json.Marshal(evmtypes.TransactionArgs{From: &from, To: &to, Data: &hb2})
		q("/ethermint.evm.v1.Query/EstimateGas", &evmtypes.EthCallRequest{Args: args2, GasCap: 5_000_000, ChainId: 7700, ProposerAddress: sdk.ConsAddress(n.consAddr())})
		q("/ethermint.evm.v1.Query/EthCall", &evmtypes.EthCallRequest{Args: args2, GasCap: 5_000_000, ChainId: 7700, ProposerAddress: sdk.ConsAddress(n.consAddr())})
	}
	// mempool checks and simulations of the transactions of the next block (and of a few of them twice / as rechecks)
	for i, tx := range next {
		func() {
			defer func() { recover() }()
			a.CheckTx(&abci.RequestCheckTx{Tx: tx.Bytes, Type: abci.CheckTxType_New})
			cnt++
			if i%2 == 0 {
				a.CheckTx(&abci.RequestCheckTx{Tx: tx.Bytes, Type: abci.CheckTxType_Recheck})
				cnt++
			}
		}()
		func() {
			defer func() { recover() }()
			a.Simulate(tx.Bytes)
			cnt++
		}()
	}
	// random transactions that will never be in a block
	for k := 0; k < 2; k++ {
		i := s.r.Intn(len(s.cfg.Addrs))
		ctx := n.QueryCtx()
		acc := a.AccountKeeper.GetAccount(ctx, s.cfg.Addrs[i])
		if acc == nil {
			continue
		}
		bz, err := s.cfg.SignCosmos(a, i, acc.GetAccountNumber(), acc.GetSequence()+uint64(s.r.Intn(2)), 400_000, sdk.NewCoins(sdk.NewCoin(bondDenom, pow10i(16))), false,
			banktypes.NewMsgSend(s.cfg.Addrs[i], s.cfg.Addrs[0], sdk.NewCoins(sdk.NewCoin(bondDenom, pow10i(s.r.Intn(20))))))
		if err != nil {
			continue
		}
		func() {
			defer func() { recover() }()
			a.CheckTx(&abci.RequestCheckTx{Tx: bz, Type: abci.CheckTxType_New})
			a.Simulate(bz)
			cnt += 2
		}()
	}
	return cnt
}

// ---------- the run ----------

type rpSuite struct {
	cfg  *ChainCfg
	r    *Rng
	t    *Trace
	stat map[string]int
}

type nodeObs struct{ app, res, exp string }

func runReplica(seed uint64, ops int, out string) map[string]int {
	r := SeedRng("replica", seed)
	s := &rpSuite{r: r, t: NewTrace(out), stat: map[string]int{}}
	defer s.t.Close()
	// wall-clock anchoring (see chainGenTime): the block history stays the replay artefact (<trace>.blocks)
	chainGenTime = time.Now().Add(-65 * time.Second).Truncate(time.Second).UTC()
	s.cfg = NewChainCfg(6, r)
	A, B, C := NewNode("A", s.cfg), NewNode("B", s.cfg), NewNode("C", s.cfg)
	for _, n := range []*Node{A, B, C} {
		if err := n.InitChain(s.cfg.Genesis, s.cfg.GenTime, 1); err != nil {
			fmt.Fprintln(os.Stderr, "replica: InitChain failed:", err)
			os.Exit(1)
		}
	}
	h := NewHist(s.cfg, r, A)
	h.txPerBlk = 8

	histPath := out + ".blocks"
	hf, err := os.Create(histPath)
	if err != nil {
		panic(err)
	}
	hw := bufio.NewWriterSize(hf, 1<<20)
	enc := json.NewEncoder(hw)
	enc.Encode(histHeader{Genesis: hex.EncodeToString(s.cfg.Genesis), GenTimeNs: s.cfg.GenTime.UnixNano()})

	type rec struct {
		height     int64
		t          time.Time
		ntx, reads int
		tick       bool
		obs        [3]nodeObs
		okTx       int
		glines     []string // replica A's exported Canto sections at sampled heights (for the model)
	}
	var recs []rec
	for b := 0; b < ops; b++ {
		ht, t, txs := h.NextBlock()
		export := b%7 == 3 || b == ops-1
		br := blockRec{Height: ht, TimeNs: t.UnixNano(), Export: export}
		for _, tx := range txs {
			br.Txs = append(br.Txs, hex.EncodeToString(tx.Bytes))
			br.Kinds = append(br.Kinds, tx.Kind)
		}
		enc.Encode(br)
		// C serves reads before the block, on the state every replica shares at this boundary
		nreads := s.reads(C, txs)
		rc := rec{height: ht, t: t, ntx: len(txs), reads: nreads}
		for i, n := range []*Node{A, B, C} {
			res, err := n.Block(ht, t, txBytes(txs))
			if err != nil {
				rc.obs[i] = nodeObs{app: "error:" + gsafe(err.Error()), res: "-", exp: "-"}
				continue
			}
			rc.obs[i] = nodeObs{app: hex.EncodeToString(res.AppHash)[:16], res: resultsDigest(res), exp: "-"}
			if i == 0 {
				h.Observe(res)
				for _, tr := range res.TxResults {
					if tr.Code == 0 {
						rc.okTx++
					}
				}
				for _, ev := range res.Events {
					if ev.Type == "epoch_end" {
						rc.tick = true
					}
				}
			}
			if export {
				rc.obs[i].exp = exportDigest(n)
				if i == 0 {
					if sec, _, err := exportSections(n.App); err == nil {
						if g, err := parseCantoGen(n.App.AppCodec(), sec); err == nil {
							rc.glines = g.Lines(int(ht), 1)
						}
					}
				}
			}
		}
		// B is destroyed and re-created over its database at every block boundary
		B.Restart()
		s.stat["restarts"]++
		s.stat["reads"] += nreads
		s.stat["blocks"]++
		recs = append(recs, rc)
	}
	hw.Flush()
	hf.Close()

	// D: the same history in another OS process with a different GOMAXPROCS
	dObs := map[int64]nodeObs{}
	dState := "ok"
	dDone := make(chan struct{})
	go func() { // D and E are independent OS processes: run them side by side
		defer close(dDone)
		runD(histPath, dObs, &dState)
	}()

	// E: on-disk database, the OS process restarted at sampled block boundaries
	eObs := map[int64]nodeObs{}
	eState := "ok"
	if os.Getenv("VERIF_NO_E") == "" && len(recs) > 0 {
		os.RemoveAll(histPath + ".edb")
		os.Remove(histPath + ".e")
		last := recs[len(recs)-1].height
		for from := int64(1); from <= last; {
			to := from + int64(15+r.Intn(36)) - 1
			if to > last {
				to = last
			}
			cmd := exec.Command(os.Args[0], "-suite", "replica-e", "-out", histPath, "-seed", fmt.Sprint(from), "-ops", fmt.Sprint(to))
			cmd.Env = append(os.Environ(), "GOMAXPROCS=3")
			cmd.Stderr = os.Stderr
			if err := cmd.Run(); err != nil {
				eState = "failed"
				fmt.Fprintln(os.Stderr, "replica: segment process failed:", err)
				break
			}
			s.stat["process-restarts"]++
			from = to + 1
		}
		if f, err := os.Open(histPath + ".e"); err == nil {
			sc := bufio.NewScanner(f)
			for sc.Scan() {
				var hh int64
				var o nodeObs
				if n, _ := fmt.Sscanf(sc.Text(), "%d %s %s %s", &hh, &o.app, &o.res, &o.exp); n == 4 {
					eObs[hh] = o
				}
			}
			f.Close()
		}
		os.RemoveAll(histPath + ".edb")
	} else {
		eState = "off"
	}
	s.stat["replica-e:"+eState]++
	<-dDone
	s.stat["replica-d:"+dState]++

	// on a divergence the block history up to the first divergent height is kept under replays/ (it is the replay)
	replayHist := "-"
	for _, rc := range recs {
		d, ok := dObs[rc.height]
		e, eok := eObs[rc.height]
		div := rc.obs[0] != rc.obs[1] || rc.obs[0] != rc.obs[2] || (ok && d != rc.obs[0]) || (!ok && dState != "off") ||
			(eok && e != rc.obs[0]) || (!eok && eState != "off")
		if div {
			if abs, err := filepath.Abs(out); err == nil {
				verif := filepath.Dir(filepath.Dir(filepath.Dir(abs)))
				dst := filepath.Join(verif, "replays", fmt.Sprintf("C06-history-seed%d-h%d.blocks", seed, rc.height))
				if copyHistoryPrefix(histPath, dst, rc.height) == nil {
					replayHist = filepath.Join("replays", filepath.Base(dst))
				}
			}
			break
		}
	}
	s.t.Line("E history=" + histPath + " replicaD=" + dState + " replicaE=" + eState + " divergent-history=" + replayHist)
	for _, rc := range recs {
		d, ok := dObs[rc.height]
		if !ok {
			d = nodeObs{"-", "-", "-"}
			if dState != "off" {
				d = nodeObs{"missing", "missing", "-"}
			}
		}
		e, ok := eObs[rc.height]
		if !ok {
			e = nodeObs{"-", "-", "-"}
			if eState != "off" {
				e = nodeObs{"missing", "missing", "-"}
			}
		}
		for _, l := range rc.glines {
			s.t.Line(l)
		}
		s.t.Line(fmt.Sprintf("O %d block t=%s ntx=%d oktx=%d reads=%d restart=1 tick=%s => ok ah=%s,%s,%s,%s,%s rh=%s,%s,%s,%s,%s ex=%s,%s,%s,%s,%s",
			rc.height, timeNs(rc.t), rc.ntx, rc.okTx, rc.reads, gnB01(rc.tick),
			rc.obs[0].app, rc.obs[1].app, rc.obs[2].app, d.app, e.app, rc.obs[0].res, rc.obs[1].res, rc.obs[2].res, d.res, e.res,
			rc.obs[0].exp, rc.obs[1].exp, rc.obs[2].exp, d.exp, e.exp))
	}
	for k, v := range h.stat {
		s.stat[k] += v
	}
	return s.stat
}

// runReplicaChild: replica D. `out` is the history file; results go to <out>.d, one line per height.
func runReplicaChild(seed uint64, ops int, out string) map[string]int {
	// node-local configuration differs between replicas too: this one runs with `[telemetry] enabled = true` (in-memory sink)
	if _, err := telemetry.New(telemetry.Config{Enabled: true, ServiceName: "replica-d"}); err != nil {
		panic(err)
	}
	f, err := os.Open(out)
	if err != nil {
		panic(err)
	}
	defer f.Close()
	sc := bufio.NewScanner(f)
	sc.Buffer(make([]byte, 1<<20), 1<<28)
	if !sc.Scan() {
		panic("empty history")
	}
	var hd histHeader
	if err := json.Unmarshal(sc.Bytes(), &hd); err != nil {
		panic(err)
	}
	gen, _ := hex.DecodeString(hd.Genesis)
	cfg := &ChainCfg{ValKey: ed25519.GenPrivKeyFromSecret([]byte("verif-validator")), GenTime: time.Unix(0, hd.GenTimeNs).UTC(), Genesis: gen}
	n := NewNode("D", cfg)
	if err := n.InitChain(cfg.Genesis, cfg.GenTime, 1); err != nil {
		fmt.Fprintln(os.Stderr, "replica-d: InitChain failed:", err)
		os.Exit(1)
	}
	of, err := os.Create(out + ".d")
	if err != nil {
		panic(err)
	}
	defer of.Close()
	var sb strings.Builder
	for sc.Scan() {
		var br blockRec
		if err := json.Unmarshal(sc.Bytes(), &br); err != nil {
			panic(err)
		}
		var txs [][]byte
		for _, t := range br.Txs {
			bz, _ := hex.DecodeString(t)
			txs = append(txs, bz)
		}
		res, err := n.Block(br.Height, time.Unix(0, br.TimeNs).UTC(), txs)
		if err != nil {
			sb.WriteString(fmt.Sprintf("%d error:%s - -\n", br.Height, gsafe(err.Error())))
			continue
		}
		exp := "-"
		if br.Export {
			exp = exportDigest(n)
		}
		sb.WriteString(fmt.Sprintf("%d %s %s %s\n", br.Height, hex.EncodeToString(res.AppHash)[:16], resultsDigest(res), exp))
	}
	of.WriteString(sb.String())
	return map[string]int{}
}

// copyHistoryPrefix copies the header and the blocks up to height h of a history file.
func copyHistoryPrefix(src, dst string, h int64) error {
	in, err := os.Open(src)
	if err != nil {
		return err
	}
	defer in.Close()
	if err := os.MkdirAll(filepath.Dir(dst), 0o755); err != nil {
		return err
	}
	o, err := os.Create(dst)
	if err != nil {
		return err
	}
	defer o.Close()
	sc := bufio.NewScanner(in)
	sc.Buffer(make([]byte, 1<<20), 1<<28)
	first := true
	for sc.Scan() {
		if !first {
			var br blockRec
			if json.Unmarshal(sc.Bytes(), &br) == nil && br.Height > h {
				break
			}
		}
		first = false
		o.Write(sc.Bytes())
		o.Write([]byte{'\n'})
	}
	return nil
}

// runReplicaSegment: replica E. One OS process executes the blocks `seed`..`ops` (from..to) of the history file `out` over the
// on-disk database <out>.edb and appends its observations to <out>.e; the next segment is another process over the same files.
func runReplicaSegment(from uint64, to int, out string) map[string]int {
	f, err := os.Open(out)
	if err != nil {
		panic(err)
	}
	defer f.Close()
	sc := bufio.NewScanner(f)
	sc.Buffer(make([]byte, 1<<20), 1<<28)
	if !sc.Scan() {
		panic("empty history")
	}
	var hd histHeader
	if err := json.Unmarshal(sc.Bytes(), &hd); err != nil {
		panic(err)
	}
	gen, _ := hex.DecodeString(hd.Genesis)
	cfg := &ChainCfg{ValKey: ed25519.GenPrivKeyFromSecret([]byte("verif-validator")), GenTime: time.Unix(0, hd.GenTimeNs).UTC(), Genesis: gen}
	db, err := dbm.NewGoLevelDB("replica-e", out+".edb", nil)
	if err != nil {
		panic(err)
	}
	defer db.Close()
	n := &Node{Name: "E", App: newApp(db), DB: db, Cfg: cfg}
	if from == 1 {
		if err := n.InitChain(cfg.Genesis, cfg.GenTime, 1); err != nil {
			fmt.Fprintln(os.Stderr, "replica-e: InitChain failed:", err)
			os.Exit(1)
		}
	} else if n.App.LastBlockHeight() != int64(from)-1 {
		fmt.Fprintf(os.Stderr, "replica-e: database is at height %d, expected %d\n", n.App.LastBlockHeight(), from-1)
		os.Exit(1)
	}
	of, err := os.OpenFile(out+".e", os.O_APPEND|os.O_CREATE|os.O_WRONLY, 0o644)
	if err != nil {
		panic(err)
	}
	defer of.Close()
	for sc.Scan() {
		var br blockRec
		if err := json.Unmarshal(sc.Bytes(), &br); err != nil {
			panic(err)
		}
		if br.Height < int64(from) {
			continue
		}
		if br.Height > int64(to) {
			break
		}
		var txs [][]byte
		for _, t := range br.Txs {
			bz, _ := hex.DecodeString(t)
			txs = append(txs, bz)
		}
		res, err := n.Block(br.Height, time.Unix(0, br.TimeNs).UTC(), txs)
		if err != nil {
			fmt.Fprintf(of, "%d error:%s - -\n", br.Height, gsafe(err.Error()))
			continue
		}
		exp := "-"
		if br.Export {
			exp = exportDigest(n)
		}
		fmt.Fprintf(of, "%d %s %s %s\n", br.Height, hex.EncodeToString(res.AppHash)[:16], resultsDigest(res), exp)
	}
	return map[string]int{}
}

func runD(histPath string, dObs map[int64]nodeObs, dState *string) {
	if os.Getenv("VERIF_NO_D") != "" {
		*dState = "off"
		return
	}
	cmd := exec.Command(os.Args[0], "-suite", "replica-d", "-out", histPath)
	cmd.Env = append(os.Environ(), "GOMAXPROCS=2")
	cmd.Stderr = os.Stderr
	if err := cmd.Run(); err != nil {
		*dState = "failed"
		fmt.Fprintln(os.Stderr, "replica: child process failed:", err)
		return
	}
	f, err := os.Open(histPath + ".d")
	if err != nil {
		*dState = "failed"
		return
	}
	defer f.Close()
	sc := bufio.NewScanner(f)
	for sc.Scan() {
		var hh int64
		var o nodeObs
		if n, _ := fmt.Sscanf(sc.Text(), "%d %s %s %s", &hh, &o.app, &o.res, &o.exp); n == 4 {
			dObs[hh] = o
		}
	}
}
