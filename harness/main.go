package main

import (
	"encoding/json"
	"flag"
	"fmt"
	"os"
	"sort"

	authtypes "github.com/cosmos/cosmos-sdk/x/auth/types"

	"github.com/Canto-Network/Canto/v8/app"
)

var candidateModules = []string{"fee_collector", "distribution", "bonded_tokens_pool", "not_bonded_tokens_pool", "gov", "transfer", "evm", "inflation", "erc20", "csr", "govshuttle", "onboarding", "coinswap", "mint", "feemarket", "ibc", "epochs"}

// suites register themselves in init(): name -> run(seed, ops, traceFile) statistics
var suites = map[string]func(seed uint64, ops int, out string) map[string]int{}

func initModuleNames() {
	a := app.Setup(false, nil)
	macc := a.ModuleAccountAddrs()
	for _, n := range candidateModules {
		if macc[authtypes.NewModuleAddress(n).String()] {
			moduleNamesCache = append(moduleNamesCache, n)
		}
	}
	sort.Strings(moduleNamesCache)
	if len(moduleNamesCache) != len(macc) {
		fmt.Fprintf(os.Stderr, "harness: %d module accounts in app, %d recognised by name\n", len(macc), len(moduleNamesCache))
	}
}

func main() {
	suite := flag.String("suite", "", "suite name")
	seed := flag.Uint64("seed", 1, "PRNG seed")
	ops := flag.Int("ops", 1000, "number of operations")
	out := flag.String("out", "", "trace file")
	statOut := flag.String("stats", "", "statistics json file")
	flag.Parse()
	initModuleNames()
	run, ok := suites[*suite]
	if !ok {
		fmt.Fprintln(os.Stderr, "unknown suite", *suite)
		os.Exit(2)
	}
	stat := run(*seed, *ops, *out)
	if *statOut != "" {
		b, _ := json.MarshalIndent(stat, "", " ")
		os.WriteFile(*statOut, b, 0o644)
	}
}
