package main

// Helpers of the "govshuttle" suite (C20): a world whose EVM can run (bonded validator as block proposer),
// eth_call of ProposalStore.QueryProp through the app's real erc20 keeper, canonical rendering of Go strings /
// byte strings / proposal records for the line protocol.

import (
	"encoding/hex"
	"fmt"
	"math/big"
	"strconv"
	"strings"
	"time"
	"unicode"

	"github.com/cometbft/cometbft/crypto/tmhash"
	tmproto "github.com/cometbft/cometbft/proto/tendermint/types"
	"github.com/cosmos/cosmos-sdk/crypto/keys/ed25519"
	sdk "github.com/cosmos/cosmos-sdk/types"
	stakingkeeper "github.com/cosmos/cosmos-sdk/x/staking/keeper"
	stakingtypes "github.com/cosmos/cosmos-sdk/x/staking/types"
	"github.com/ethereum/go-ethereum/common"

	"github.com/Canto-Network/Canto/v8/contracts"
)

// gsNewWorld: NewWorld plus what ethermint needs to execute a message: the block proposer must be a known validator
// (EVMConfig looks up the coinbase from the proposer's consensus address) — the same setup as
// x/govshuttle/keeper/keeper_test.go, with a deterministic key.
func gsNewWorld(nUsers int, fund sdk.Coins, t time.Time) *World {
	w := NewWorld(nUsers, fund, t)
	pub := ed25519.GenPrivKeyFromSecret([]byte("verif-govshuttle-validator")).PubKey()
	cons := sdk.ConsAddress(pub.Address())
	w.Ctx = w.App.BaseApp.NewContextLegacy(false, tmproto.Header{
		Height: 1, ChainID: "canto_7700-1", Time: t, ProposerAddress: cons.Bytes(),
		LastBlockId: tmproto.BlockID{Hash: tmhash.Sum([]byte("block_id")),
			PartSetHeader: tmproto.PartSetHeader{Total: 11, Hash: tmhash.Sum([]byte("partset_header"))}},
		AppHash: tmhash.Sum([]byte("app")), DataHash: tmhash.Sum([]byte("data")),
		ValidatorsHash: tmhash.Sum([]byte("validators")), NextValidatorsHash: tmhash.Sum([]byte("next_validators")),
		ConsensusHash: tmhash.Sum([]byte("consensus")), LastResultsHash: tmhash.Sum([]byte("last_result")),
		EvidenceHash: tmhash.Sum([]byte("evidence")),
	})
	val, err := stakingtypes.NewValidator(sdk.ValAddress(pub.Address().Bytes()).String(), pub, stakingtypes.Description{})
	if err != nil {
		panic(err)
	}
	val = stakingkeeper.TestingUpdateValidator(w.App.StakingKeeper, w.Ctx, val, true)
	valbz, err := w.App.StakingKeeper.ValidatorAddressCodec().StringToBytes(val.GetOperator())
	if err != nil {
		panic(err)
	}
	if err := w.App.StakingKeeper.Hooks().AfterValidatorCreated(w.Ctx, valbz); err != nil {
		panic(err)
	}
	if err := w.App.StakingKeeper.SetValidatorByConsAddr(w.Ctx, val); err != nil {
		panic(err)
	}
	return w
}

// gsProp is ProposalStore.Proposal as answered by QueryProp.
type gsProp struct {
	Raw        []byte // the bytes the contract returned (the ABI encoding of the record, produced by the compiled contract on the real EVM)
	Id         *big.Int
	Title      string
	Desc       string
	Targets    []common.Address
	Values     []*big.Int
	Signatures []string
	Calldatas  [][]byte
}

// gsQueryProp: eth_call (commit=false) of QueryProp(id) on the contract at port, from `from`.
func gsQueryProp(w *World, ctx sdk.Context, from, port common.Address, id *big.Int) (gsProp, error) {
	abi := contracts.ProposalStoreContract.ABI
	res, err := w.App.Erc20Keeper.CallEVM(ctx, abi, from, port, false, "QueryProp", id)
	if err != nil {
		return gsProp{}, err
	}
	out, err := abi.Unpack("QueryProp", res.Ret)
	if err != nil {
		return gsProp{}, err
	}
	if len(out) != 1 {
		return gsProp{}, fmt.Errorf("QueryProp: %d outputs", len(out))
	}
	// go-ethereum's ABI decoder returns an anonymous struct with json tags; copy it field by field
	v, ok := out[0].(struct {
		Id         *big.Int         `json:"id"`
		Title      string           `json:"title"`
		Desc       string           `json:"desc"`
		Targets    []common.Address `json:"targets"`
		Values     []*big.Int       `json:"values"`
		Signatures []string         `json:"signatures"`
		Calldatas  [][]uint8        `json:"calldatas"`
	})
	if !ok {
		return gsProp{}, fmt.Errorf("QueryProp: unexpected go type %T", out[0])
	}
	return gsProp{Raw: res.Ret, Id: v.Id, Title: v.Title, Desc: v.Desc, Targets: v.Targets, Values: v.Values, Signatures: v.Signatures,
		Calldatas: v.Calldatas}, nil
}

// ---------- canonical tokens ----------

// gsEsc: every byte outside [A-Za-z0-9_.-] becomes %XX (lower-case hex of the byte). Works on raw bytes: a Go string is a
// byte sequence; the Lean driver decodes the token into the same byte list.
func gsEsc(s string) string {
	var b strings.Builder
	for i := 0; i < len(s); i++ {
		c := s[i]
		if (c >= 'a' && c <= 'z') || (c >= 'A' && c <= 'Z') || (c >= '0' && c <= '9') || c == '_' || c == '.' || c == '-' {
			b.WriteByte(c)
		} else {
			fmt.Fprintf(&b, "%%%02x", c)
		}
	}
	return b.String()
}

// gsStr: token of a string. Strings over 64 bytes that are periodic with a period of at most 64 bytes are written
// `<n>*<pattern>+<rest>` (the driver expands them) — no hashing, nothing is lost. Everything else is written in full.
func gsStr(s string) string {
	if len(s) > 64 {
		for p := 1; p <= 64; p++ {
			ok := true
			for i := p; i < len(s); i++ {
				if s[i] != s[i-p] {
					ok = false
					break
				}
			}
			if ok {
				n := len(s) / p
				return strconv.Itoa(n) + "*" + gsEsc(s[:p]) + "+" + gsEsc(s[n*p:])
			}
		}
	}
	return gsEsc(s)
}

func gsList(items []string) string { return strconv.Itoa(len(items)) + ";" + strings.Join(items, ",") }

func gsStrList(xs []string) string {
	out := make([]string, len(xs))
	for i, x := range xs {
		out[i] = gsStr(x)
	}
	return gsList(out)
}

func gsU64List(xs []uint64) string {
	out := make([]string, len(xs))
	for i, x := range xs {
		out[i] = strconv.FormatUint(x, 10)
	}
	return gsList(out)
}

// gsRecord: <id>/<title>/<desc>/<targets>/<values>/<signatures>/<calldatas>; addresses and call data in lower-case hex
func gsRecord(p gsProp) string {
	tg := make([]string, len(p.Targets))
	for i, a := range p.Targets {
		tg[i] = hex.EncodeToString(a.Bytes())
	}
	vs := make([]string, len(p.Values))
	for i, v := range p.Values {
		vs[i] = v.String()
	}
	cd := make([]string, len(p.Calldatas))
	for i, c := range p.Calldatas {
		cd[i] = gsStr(hex.EncodeToString(c))
	}
	return p.Id.String() + "/" + gsStr(p.Title) + "/" + gsStr(p.Desc) + "/" + gsList(tg) + "/" + gsList(vs) + "/" +
		gsStrList(p.Signatures) + "/" + gsList(cd)
}

// gsCheckToLower validates the assumption behind the model of strings.ToLower in the denomination check: the only
// non-ASCII runes Go lower-cases into ASCII are U+212A (Kelvin sign -> k) and U+0130 (-> i); neither letter occurs in
// "canto" / "note", so comparing the ASCII-lower-cased bytes is exact.
func gsCheckToLower() {
	for r := rune(0x80); r <= unicode.MaxRune; r++ {
		l := unicode.ToLower(r)
		if l < 0x80 && l != 'k' && l != 'i' {
			panic(fmt.Sprintf("unicode.ToLower(%U) = %q: the model of the denomination check is not exact", r, l))
		}
	}
}
