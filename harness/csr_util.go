package main

// Helpers of the "csr" suite: a context in which the real EVM runs (bonded proposer), deployment of the Turnstile the
// way the module's BeginBlock does it, raw dumps of the two registry prefixes, eth_call of Turnstile.balances, encoding
// of receipt logs for the trace.

import (
	_ "embed"
	"encoding/binary"
	"encoding/hex"
	"encoding/json"
	"fmt"
	"math/big"
	"sort"
	"strings"

	storetypes "cosmossdk.io/store/types"
	cosmosed25519 "github.com/cosmos/cosmos-sdk/crypto/keys/ed25519"
	sdk "github.com/cosmos/cosmos-sdk/types"
	stakingkeeper "github.com/cosmos/cosmos-sdk/x/staking/keeper"
	stakingtypes "github.com/cosmos/cosmos-sdk/x/staking/types"
	"github.com/ethereum/go-ethereum/common"
	ethtypes "github.com/ethereum/go-ethereum/core/types"
	"github.com/ethereum/go-ethereum/crypto"
	evmtypes "github.com/evmos/ethermint/x/evm/types"

	"github.com/Canto-Network/Canto/v8/contracts"
	"github.com/Canto-Network/Canto/v8/x/csr"
	csrkeeper "github.com/Canto-Network/Canto/v8/x/csr/keeper"
	csrtypes "github.com/Canto-Network/Canto/v8/x/csr/types"
)

// test fixtures of /repo/x/csr/keeper/test_contracts (a contract that calls Turnstile.register / assign, and a factory)
//
//go:embed csr_assets/csrSmartContract.json
var csrCsrSmartContractJSON []byte

//go:embed csr_assets/factoryContract.json
var csrFactoryJSON []byte

var csrCsrSmartContract, csrFactoryContract evmtypes.CompiledContract

func init() {
	if err := json.Unmarshal(csrCsrSmartContractJSON, &csrCsrSmartContract); err != nil {
		panic(err)
	}
	if err := json.Unmarshal(csrFactoryJSON, &csrFactoryContract); err != nil {
		panic(err)
	}
}

// csrPrepareCtx: the EVM derives the coinbase from the validator of the block proposer; give the context one.
func csrPrepareCtx(w *World) {
	pk := cosmosed25519.GenPrivKeyFromSecret([]byte("verif-csr-proposer")).PubKey()
	cons := sdk.ConsAddress(pk.Address())
	valAddr := sdk.ValAddress(userAddr(90))
	v, err := stakingtypes.NewValidator(valAddr.String(), pk, stakingtypes.Description{})
	if err != nil {
		panic(err)
	}
	v = stakingkeeper.TestingUpdateValidator(w.App.StakingKeeper, w.Ctx, v, true)
	if err := w.App.StakingKeeper.SetValidatorByConsAddr(w.Ctx, v); err != nil {
		panic(err)
	}
	h := w.Ctx.BlockHeader()
	h.ProposerAddress = cons.Bytes()
	w.Ctx = w.Ctx.WithBlockHeader(h)
}

// csrDeployTurnstile runs the module's own BeginBlock (deploys the Turnstile from the module account when CSR is enabled).
func csrDeployTurnstile(w *World) common.Address {
	p := w.App.CSRKeeper.GetParams(w.Ctx)
	p.EnableCsr = true
	w.App.CSRKeeper.SetParams(w.Ctx, p)
	am := csr.NewAppModule(w.App.AppCodec(), w.App.CSRKeeper, w.App.AccountKeeper)
	if err := am.BeginBlock(w.Ctx); err != nil {
		panic(err)
	}
	ts, ok := w.App.CSRKeeper.GetTurnstile(w.Ctx)
	if !ok {
		panic("turnstile not deployed by BeginBlock")
	}
	return ts
}

func accOf(a common.Address) sdk.AccAddress { return sdk.AccAddress(a.Bytes()) }

// evmApply executes a message on the real EVM (no hooks: those are invoked by the suite itself), committed on success.
func evmApply(w *World, from common.Address, to *common.Address, data []byte) (*evmtypes.MsgEthereumTxResponse, common.Address, error) {
	nonce := w.App.EvmKeeper.GetNonce(w.Ctx, from)
	msg := ethtypes.NewMessage(from, to, nonce, big.NewInt(0), 30_000_000, big.NewInt(0), big.NewInt(0), big.NewInt(0), data, ethtypes.AccessList{}, false)
	cctx, write := w.Ctx.CacheContext()
	res, err := w.App.EvmKeeper.ApplyMessage(cctx, msg, evmtypes.NewNoOpTracer(), true)
	if err != nil {
		return nil, common.Address{}, err
	}
	if res.Failed() {
		return res, common.Address{}, fmt.Errorf("vm error: %s", res.VmError)
	}
	write()
	return res, crypto.CreateAddress(from, nonce), nil
}

func evmDeploy(w *World, from common.Address, c evmtypes.CompiledContract, args ...interface{}) common.Address {
	ctor, err := c.ABI.Pack("", args...)
	if err != nil {
		panic(err)
	}
	data := append(append([]byte{}, c.Bin...), ctor...)
	_, addr, err := evmApply(w, from, nil, data)
	if err != nil {
		panic(err)
	}
	return addr
}

// turnstileBalance: Turnstile.balances(nft) by eth_call (on a discarded branch).
func turnstileBalance(w *World, ctx sdk.Context, ts common.Address, nft uint64) *big.Int {
	cctx, _ := ctx.CacheContext()
	res, err := w.App.CSRKeeper.CallMethod(cctx, "balances", contracts.TurnstileContract, csrtypes.ModuleAddress, &ts, big.NewInt(0), new(big.Int).SetUint64(nft))
	if err != nil {
		panic(err)
	}
	out, err := contracts.TurnstileContract.ABI.Unpack("balances", res.Ret)
	if err != nil || len(out) != 1 {
		panic(fmt.Sprint("balances: ", err))
	}
	return out[0].(*big.Int)
}

func hasCode(w *World, ctx sdk.Context, a common.Address) bool {
	acct := w.App.EvmKeeper.GetAccount(ctx, a)
	return acct != nil && acct.IsContract()
}

// ---------- raw dump of the csr store ----------

type csrDump struct {
	Csrs string // <key id>~<record id>~<c1+c2+...>~<txs>~<revenue>,...
	Idx  string // <contract>~<nft>,...
	Ids  []uint64
}

// contractTok: registry keys are address *strings*; the canonical EIP-55 spelling of an address is its alias, anything
// else is shown raw (and can never equal an alias).
func contractTok(w *World, s string) string {
	if common.IsHexAddress(s) && common.HexToAddress(s).String() == s {
		return w.Alias(accOf(common.HexToAddress(s)))
	}
	return "raw" + hex.EncodeToString([]byte(s))
}

func dumpCsrStore(w *World, ctx sdk.Context) csrDump {
	store := ctx.KVStore(w.App.GetKey(csrtypes.StoreKey))
	var d csrDump
	var cs []string
	it := storetypes.KVStorePrefixIterator(store, csrtypes.KeyPrefixCSR)
	type ent struct {
		id  uint64
		str string
	}
	var ents []ent
	for ; it.Valid(); it.Next() {
		k := it.Key()[len(csrtypes.KeyPrefixCSR):]
		if len(k) != 8 {
			panic("csr key of unexpected length")
		}
		id := binary.LittleEndian.Uint64(k)
		var c csrtypes.CSR
		if err := c.Unmarshal(it.Value()); err != nil {
			panic(err)
		}
		var toks []string
		for _, a := range c.Contracts {
			toks = append(toks, contractTok(w, a))
		}
		rev := "0"
		if !c.Revenue.IsNil() {
			rev = c.Revenue.String()
		}
		ents = append(ents, ent{id, fmt.Sprintf("%d~%d~%s~%d~%s", id, c.Id, strings.Join(toks, "+"), c.Txs, rev)})
		d.Ids = append(d.Ids, id)
	}
	it.Close()
	sort.Slice(ents, func(i, j int) bool { return ents[i].id < ents[j].id })
	for _, e := range ents {
		cs = append(cs, e.str)
	}
	d.Csrs = strings.Join(cs, ",")
	var is []string
	it = storetypes.KVStorePrefixIterator(store, csrtypes.KeyPrefixContract)
	for ; it.Valid(); it.Next() {
		k := it.Key()[len(csrtypes.KeyPrefixContract):]
		v := it.Value()
		if len(v) != 8 {
			panic("index value of unexpected length")
		}
		is = append(is, fmt.Sprintf("%s~%d", contractTok(w, string(k)), binary.LittleEndian.Uint64(v)))
	}
	it.Close()
	sort.Strings(is)
	d.Idx = strings.Join(is, ",")
	return d
}

// ---------- receipt logs on the trace ----------

// logTok renders one log: <emitter>/<topic>/<payload>
//
//	topic:   none | reg | asg | other (an event of the Turnstile ABI that is neither) | unk (not in the ABI)
//	payload: R~<contract>~<code 0/1>~<tokenId>  what the ABI decoder makes of the data under the Register layout
//	         A~<contract>~<code 0/1>~<tokenId>  ... under the Assign layout
//	         M  the decoder rejects the data;  -  not decoded (topic is neither Register nor Assign)
//	         R, A and M carry the raw event data as a last field (~<hex>): the driver decodes it with the Lean model of the
//	         contract ABI (Model/Abi.lean) and demands the same verdict and the same token id
func logTok(w *World, ctx sdk.Context, l *ethtypes.Log) string {
	em := w.Alias(accOf(l.Address))
	if len(l.Topics) == 0 {
		return em + "/none/-"
	}
	ev, err := csrkeeper.TurnstileContract.EventByID(l.Topics[0])
	if err != nil {
		return em + "/unk/-"
	}
	code := func(a common.Address) int {
		if hasCode(w, ctx, a) {
			return 1
		}
		return 0
	}
	switch ev.Name {
	case csrtypes.TurnstileEventRegister:
		var e csrtypes.RegisterCSREvent
		if err := csrkeeper.TurnstileContract.UnpackIntoInterface(&e, csrtypes.TurnstileEventRegister, l.Data); err != nil {
			return em + "/reg/M~" + hex.EncodeToString(l.Data)
		}
		return fmt.Sprintf("%s/reg/R~%s~%d~%s~%s", em, w.Alias(accOf(e.SmartContract)), code(e.SmartContract), e.TokenId.String(), hex.EncodeToString(l.Data))
	case csrtypes.TurnstileEventUpdate:
		var e csrtypes.UpdateCSREvent
		if err := csrkeeper.TurnstileContract.UnpackIntoInterface(&e, csrtypes.TurnstileEventUpdate, l.Data); err != nil {
			return em + "/asg/M~" + hex.EncodeToString(l.Data)
		}
		return fmt.Sprintf("%s/asg/A~%s~%d~%s~%s", em, w.Alias(accOf(e.SmartContract)), code(e.SmartContract), e.TokenId.String(), hex.EncodeToString(l.Data))
	}
	return em + "/other/-"
}

func logsTok(w *World, ctx sdk.Context, logs []*ethtypes.Log) string {
	var out []string
	for _, l := range logs {
		out = append(out, logTok(w, ctx, l))
	}
	return strings.Join(out, ";")
}
