package main

// Block-history generator for surface T: everything reaches the application through signed transactions in
// blocks (governance through real proposals + votes), so the same history can be fed to any number of replicas.

import (
	_ "embed"
	"encoding/json"
	"fmt"
	"math/big"
	"strings"
	"time"

	sdkmath "cosmossdk.io/math"
	abci "github.com/cometbft/cometbft/abci/types"
	sdk "github.com/cosmos/cosmos-sdk/types"
	authtypes "github.com/cosmos/cosmos-sdk/x/auth/types"
	banktypes "github.com/cosmos/cosmos-sdk/x/bank/types"
	govtypes "github.com/cosmos/cosmos-sdk/x/gov/types"
	govv1 "github.com/cosmos/cosmos-sdk/x/gov/types/v1"
	stakingtypes "github.com/cosmos/cosmos-sdk/x/staking/types"
	"github.com/ethereum/go-ethereum/common"
	"github.com/ethereum/go-ethereum/crypto"
	evmtypes "github.com/evmos/ethermint/x/evm/types"

	"github.com/Canto-Network/Canto/v8/contracts"
	coinswaptypes "github.com/Canto-Network/Canto/v8/x/coinswap/types"
	csrtypes "github.com/Canto-Network/Canto/v8/x/csr/types"
	erc20types "github.com/Canto-Network/Canto/v8/x/erc20/types"
	govshuttletypes "github.com/Canto-Network/Canto/v8/x/govshuttle/types"
	inflationtypes "github.com/Canto-Network/Canto/v8/x/inflation/types"
	onboardingtypes "github.com/Canto-Network/Canto/v8/x/onboarding/types"
)

//go:embed data/csrSmartContract.json
var csrSmartContractJSON []byte
var csrSmartContract evmtypes.CompiledContract

func init() {
	if err := json.Unmarshal(csrSmartContractJSON, &csrSmartContract); err != nil {
		panic(err)
	}
}

type propInfo struct {
	id        uint64
	kind      string
	submitted int64 // height
	voted     bool
}

type pendingTx struct {
	spec   TxSpec
	onOK   func()
	propID uint64
}

type Hist struct {
	cfg    *ChainCfg
	r      *Rng
	ref    *Node
	height int64
	now    time.Time
	stat   map[string]int

	props     []*propInfo
	nextProp  uint64
	csrCtrs   []common.Address // deployed CSRSmartContract instances (not yet registered)
	csrRegd   []common.Address // registered ones
	erc20s    []common.Address // user-deployed ERC20 contracts
	erc20Own  map[common.Address]int
	emitters  map[common.Address]bool // user-deployed batch tokens (emitterInit): one call, several Transfer events
	emitN     uint64
	hookConv  map[common.Address]bool // contracts whose tokens were converted through the EVM hook at least once
	burst     int // > 0: fill the CSR registry up to this many NFTs in bursts (more than one default page of the query servers)
	regERC20  map[common.Address]bool
	pending   []pendingTx
	usedSeq   map[int]uint64
	txPerBlk  int
	govAddr   string
	noMalform bool
}

func NewHist(cfg *ChainCfg, r *Rng, ref *Node) *Hist {
	return &Hist{cfg: cfg, r: r, ref: ref, height: 0, now: cfg.GenTime, stat: map[string]int{}, nextProp: 1,
		erc20Own: map[common.Address]int{}, emitters: map[common.Address]bool{}, hookConv: map[common.Address]bool{}, regERC20: map[common.Address]bool{}, txPerBlk: 6,
		govAddr: authtypes.NewModuleAddress(govtypes.ModuleName).String()}
}

func (h *Hist) ethAddr(i int) common.Address { return common.BytesToAddress(h.cfg.Addrs[i]) }

func (h *Hist) acc(ctx sdk.Context, i int) (num, seq uint64) {
	a := h.ref.App.AccountKeeper.GetAccount(ctx, h.cfg.Addrs[i])
	if a == nil {
		return 0, 0
	}
	return a.GetAccountNumber(), a.GetSequence() + h.usedSeq[i]
}

func (h *Hist) baseFee(ctx sdk.Context) *big.Int {
	bf := h.ref.App.FeeMarketKeeper.GetBaseFee(ctx)
	if bf == nil || bf.Sign() == 0 {
		return big.NewInt(1_000_000_000)
	}
	return bf
}

func (h *Hist) cosmosTx(ctx sdk.Context, kind string, i int, gas uint64, onOK func(), msgs ...sdk.Msg) {
	num, seq := h.acc(ctx, i)
	fee := sdk.NewCoins(sdk.NewCoin(bondDenom, sdkmath.NewIntFromBigInt(h.baseFee(ctx)).MulRaw(2).MulRaw(int64(gas))))
	bz, err := h.cfg.SignCosmos(h.ref.App, i, num, seq, gas, fee, false, msgs...)
	if err != nil {
		h.stat["gen-error:"+kind]++
		return
	}
	h.usedSeq[i]++
	h.pending = append(h.pending, pendingTx{spec: TxSpec{Kind: kind, Signer: i, Bytes: bz}, onOK: onOK})
}

func (h *Hist) ethTx(ctx sdk.Context, kind string, i int, to *common.Address, amount *big.Int, gas uint64, data []byte, onOK func()) {
	_, seq := h.acc(ctx, i)
	gp := new(big.Int).Mul(h.baseFee(ctx), big.NewInt(int64(2+h.r.Intn(3))))
	bz, err := h.cfg.SignEth(h.ref.App, i, seq, to, amount, gas, gp, data)
	if err != nil {
		h.stat["gen-error:"+kind]++
		return
	}
	h.usedSeq[i]++
	h.pending = append(h.pending, pendingTx{spec: TxSpec{Kind: kind, Signer: i, Bytes: bz}, onOK: onOK})
}

func (h *Hist) user() int { return h.r.Intn(len(h.cfg.Addrs)) }

func (h *Hist) amt() sdkmath.Int {
	switch h.r.Intn(6) {
	case 0:
		return sdkmath.NewInt(int64(1 + h.r.Intn(5)))
	case 1:
		return sdkmath.NewInt(int64(1 + h.r.Intn(100000)))
	case 2, 3:
		return pow10i(12 + h.r.Intn(7)).MulRaw(int64(1 + h.r.Intn(9)))
	default:
		return pow10i(17 + h.r.Intn(3)).MulRaw(int64(1 + h.r.Intn(9))).AddRaw(int64(h.r.Intn(1000)))
	}
}

func metadataFor(denom string) banktypes.Metadata {
	disp := strings.TrimPrefix(denom, "u")
	if disp == denom {
		disp = denom + "x"
	}
	return banktypes.Metadata{Description: "harness coin " + denom, Base: denom, Display: disp, Name: denom, Symbol: strings.ToUpper(disp),
		DenomUnits: []*banktypes.DenomUnit{{Denom: denom, Exponent: 0}, {Denom: disp, Exponent: 6}}}
}

// ---------- governance ----------

func (h *Hist) submit(ctx sdk.Context, kind string, msg sdk.Msg, expedited bool) {
	i := h.user()
	dep := int64(1000)
	if expedited {
		dep = 5000
	}
	if h.r.Chance(1, 12) {
		dep = 10 // stays in the deposit period
	}
	m, err := govv1.NewMsgSubmitProposal([]sdk.Msg{msg}, sdk.NewCoins(sdk.NewCoin(bondDenom, sdkmath.NewInt(dep))), h.cfg.Addrs[i].String(),
		"", "harness "+kind, "generated proposal", expedited)
	if err != nil {
		h.stat["gen-error:submit"]++
		return
	}
	id := h.nextProp
	hh := h.height
	h.cosmosTx(ctx, "gov-submit:"+kind, i, 1_500_000, func() {
		h.props = append(h.props, &propInfo{id: id, kind: kind, submitted: hh, voted: dep < 1000})
		h.nextProp++
	}, m)
}

func (h *Hist) genProposal(ctx sdk.Context) {
	a := h.ref.App
	// a switched-off erc20 module (or hook) does not stay off for most of a history
	if p := a.Erc20Keeper.GetParams(ctx); (!p.EnableErc20 || !p.EnableEVMHook) && h.r.Chance(1, 3) {
		p.EnableErc20, p.EnableEVMHook = true, true
		h.submit(ctx, "params-erc20", &erc20types.MsgUpdateParams{Authority: h.govAddr, Params: p}, false)
		return
	}
	switch h.r.Intn(13) {
	case 0, 1: // RegisterCoin
		cands := append(append([]string{}, extraDenoms...), "ausdc", "aeth")
		d := cands[h.r.Intn(len(cands))]
		if h.r.Chance(1, 3) {
			d = h.r.PickStr("ucoin", "UCOIN") // denominations are case-sensitive: two different coins
		}
		h.submit(ctx, "register-coin", &erc20types.MsgRegisterCoin{Authority: h.govAddr, Title: "t", Description: "d", Metadata: metadataFor(d)}, false)
	case 2: // RegisterERC20
		if len(h.erc20s) == 0 {
			return
		}
		c := h.erc20s[h.r.Intn(len(h.erc20s))]
		h.submit(ctx, "register-erc20", &erc20types.MsgRegisterERC20{Authority: h.govAddr, Title: "t", Description: "d", Erc20Address: c.Hex()}, false)
	case 3: // toggle
		pairs := a.Erc20Keeper.GetTokenPairs(ctx)
		if len(pairs) == 0 {
			return
		}
		p := pairs[h.r.Intn(len(pairs))]
		if h.r.Chance(1, 2) {
			// a pair that has been converted through the hook: switched off (and on again) while in use
			for _, q := range pairs {
				if h.hookConv[q.GetERC20Contract()] && h.r.Chance(1, 2) {
					p = q
					break
				}
			}
		}
		tok := p.Denom
		if h.r.Chance(1, 2) {
			tok = p.Erc20Address
		}
		h.submit(ctx, "toggle", &erc20types.MsgToggleTokenConversion{Authority: h.govAddr, Title: "t", Description: "d", Token: tok}, h.r.Chance(1, 3))
	case 4, 5: // coinswap params
		p := a.CoinswapKeeper.GetParams(ctx)
		switch h.r.Intn(4) {
		case 0:
			p.Fee = sdkmath.LegacyNewDecWithPrec(h.r.PickInt(0, 1, 3, 30, 500), 3)
		case 1:
			p.TaxRate = sdkmath.LegacyNewDecWithPrec(h.r.PickInt(0, 1, 10, 50), 2)
		case 2:
			p.PoolCreationFee = sdk.NewCoin(bondDenom, sdkmath.NewInt(h.r.PickInt(0, 1, 777, 100000)))
		default:
			// drop or restore one whitelisted denomination, change a cap
			ms := sdk.NewCoins()
			for _, d := range chainDenoms {
				if !h.r.Chance(1, 5) {
					ms = ms.Add(sdk.NewCoin(d, pow10i(18+h.r.Intn(3))))
				}
			}
			p.MaxSwapAmount = ms
		}
		if h.r.Chance(1, 10) {
			p.Fee = sdkmath.LegacyOneDec() // invalid: the proposal fails at execution
		}
		h.submit(ctx, "params-coinswap", &coinswaptypes.MsgUpdateParams{Authority: h.govAddr, Params: p}, false)
	case 6: // erc20 params
		p := a.Erc20Keeper.GetParams(ctx)
		if h.r.Chance(1, 2) {
			p.EnableErc20 = !p.EnableErc20 || h.r.Chance(2, 3)
		} else {
			p.EnableEVMHook = !p.EnableEVMHook || h.r.Chance(2, 3)
		}
		h.submit(ctx, "params-erc20", &erc20types.MsgUpdateParams{Authority: h.govAddr, Params: p}, false)
	case 7: // csr params (CSR stays enabled: see suite notes)
		p := a.CSRKeeper.GetParams(ctx)
		if !p.EnableCsr {
			p.EnableCsr = h.r.Chance(3, 4) // a chain that started with csr disabled gets it enabled by governance
		} else if h.r.Chance(1, 4) {
			p.EnableCsr = false // and governance can switch it off again (the Turnstile stays deployed)
		}
		p.CsrShares = sdkmath.LegacyNewDecWithPrec(int64(h.r.Intn(101)), 2)
		if h.r.Chance(1, 10) {
			p.CsrShares = sdkmath.LegacyNewDecWithPrec(150, 2) // invalid
		}
		h.submit(ctx, "params-csr", &csrtypes.MsgUpdateParams{Authority: h.govAddr, Params: p}, false)
	case 8, 9: // inflation params
		p := a.InflationKeeper.GetParams(ctx)
		switch h.r.Intn(3) {
		case 0:
			p.EnableInflation = !p.EnableInflation || h.r.Chance(1, 2)
		case 1:
			s := int64(h.r.Intn(101))
			p.InflationDistribution = inflationtypes.InflationDistribution{StakingRewards: sdkmath.LegacyNewDecWithPrec(s, 2), CommunityPool: sdkmath.LegacyNewDecWithPrec(100-s, 2)}
		default:
			p.ExponentialCalculation.R = sdkmath.LegacyNewDecWithPrec(int64(h.r.Intn(101)), 2)
			p.ExponentialCalculation.MaxVariance = sdkmath.LegacyNewDecWithPrec(int64(h.r.Intn(50)), 2)
		}
		h.submit(ctx, "params-inflation", &inflationtypes.MsgUpdateParams{Authority: h.govAddr, Params: p}, false)
	case 10: // onboarding params
		p := a.OnboardingKeeper.GetParams(ctx)
		switch h.r.Intn(3) {
		case 0:
			p.EnableOnboarding = !p.EnableOnboarding
		case 1:
			p.AutoSwapThreshold = h.amt()
		default:
			p.WhitelistedChannels = []string{"channel-0", "channel-7", "channel-42"}[:h.r.Intn(4)]
		}
		h.submit(ctx, "params-onboarding", &onboardingtypes.MsgUpdateParams{Authority: h.govAddr, Params: p}, false)
	default: // govshuttle: the first one deploys the port (proposal store)
		md := &govshuttletypes.LendingMarketMetadata{Account: []string{h.ethAddr(h.user()).Hex()}, PropId: 0, Values: []uint64{uint64(h.r.Intn(1000))},
			Calldatas: []string{"abcdef"}, Signatures: []string{"f()"}}
		h.submit(ctx, "lending-market", &govshuttletypes.MsgLendingMarketProposal{Authority: h.govAddr, Title: "lm", Description: "d", Metadata: md}, false)
	}
}

func (h *Hist) votes(ctx sdk.Context) {
	for _, p := range h.props {
		if !p.voted && p.submitted < h.height {
			p.voted = true
			opt := govv1.OptionYes
			if h.r.Chance(1, 10) {
				opt = govv1.OptionNo
			}
			h.cosmosTx(ctx, "gov-vote", 0, 300_000, nil, govv1.NewMsgVote(h.cfg.Addrs[0], p.id, opt, ""))
		}
	}
}

// ---------- user transactions ----------

func (h *Hist) genUserTx(ctx sdk.Context) {
	a := h.ref.App
	r := h.r
	deadline := h.now.Unix() + h.r.PickInt(60, 60, 20, 5, 1)
	if r.Chance(1, 25) {
		deadline = h.now.Unix() - 1
	}
	pools := a.CoinswapKeeper.GetAllPools(ctx)
	if r.Chance(1, 10) && h.hotTransfer(ctx) {
		return
	}
	switch k := r.Intn(100); {
	case k < 10: // bank send, sometimes a donation to a pool escrow, sometimes to a blocked module account
		i := h.user()
		to := h.cfg.Addrs[h.user()]
		if len(pools) > 0 && r.Chance(1, 4) {
			to = sdk.MustAccAddressFromBech32(pools[r.Intn(len(pools))].EscrowAddress)
		} else if r.Chance(1, 10) {
			to = authtypes.NewModuleAddress("distribution")
		}
		d := append([]string{bondDenom}, chainDenoms...)[r.Intn(1+len(chainDenoms))]
		h.cosmosTx(ctx, "send", i, 300_000, nil, banktypes.NewMsgSend(h.cfg.Addrs[i], to, sdk.NewCoins(sdk.NewCoin(d, h.amt()))))
	case k < 28: // add liquidity
		i := h.user()
		d := chainDenoms[r.Intn(len(chainDenoms))]
		if r.Chance(1, 12) {
			d = extraDenoms[r.Intn(len(extraDenoms))]
		}
		exact := h.amt()
		maxTok := h.amt() // a new (or emptied) pool takes the whole MaxToken
		if p, ok := a.CoinswapKeeper.GetPool(ctx, coinswaptypes.GetPoolId(d)); ok {
			esc := sdk.MustAccAddressFromBech32(p.EscrowAddress)
			x, y := a.BankKeeper.GetBalance(ctx, esc, bondDenom).Amount, a.BankKeeper.GetBalance(ctx, esc, d).Amount
			if x.IsPositive() && a.BankKeeper.GetSupply(ctx, p.LptDenom).Amount.IsPositive() {
				// live pool: keep the required deposit y*s/x+1 within reach of the sender
				if lim := x.Mul(pow10i(22)).Quo(y.AddRaw(1)); exact.GT(lim) && lim.IsPositive() && !r.Chance(1, 10) {
					exact = lim.QuoRaw(int64(1 + r.Intn(5))).AddRaw(1)
				}
				maxTok = pow10i(23)
			}
		}
		h.cosmosTx(ctx, "add", i, 600_000, nil, coinswaptypes.NewMsgAddLiquidity(sdk.NewCoin(d, maxTok), exact, sdkmath.OneInt(), deadline, h.cfg.Addrs[i].String()))
	case k < 48: // swap
		if len(pools) == 0 {
			return
		}
		p := pools[r.Intn(len(pools))]
		i := h.user()
		rcpt := h.cfg.Addrs[i].String()
		if r.Chance(1, 4) {
			rcpt = h.cfg.Addrs[h.user()].String()
		}
		if r.Chance(1, 8) {
			// special recipients: a pool's reserve account (a donation: allowed) or a module account (refused)
			if r.Chance(2, 3) {
				q := pools[r.Intn(len(pools))]
				rcpt = q.EscrowAddress
			} else {
				names := ModuleNames()
				rcpt = authtypes.NewModuleAddress(names[r.Intn(len(names))]).String()
			}
		}
		small := sdkmath.NewInt(int64(1 + r.Intn(1000000)))
		if r.Chance(1, 2) {
			small = pow10i(10 + r.Intn(6))
		}
		var in, out sdk.Coin
		buy := r.Chance(1, 2)
		stdIn := r.Chance(1, 2)
		if !buy {
			if stdIn {
				in, out = sdk.NewCoin(p.StandardDenom, small), sdk.NewCoin(p.CounterpartyDenom, sdkmath.OneInt())
			} else {
				in, out = sdk.NewCoin(p.CounterpartyDenom, small), sdk.NewCoin(p.StandardDenom, sdkmath.OneInt())
			}
		} else {
			if stdIn {
				in, out = sdk.NewCoin(p.StandardDenom, pow10i(22)), sdk.NewCoin(p.CounterpartyDenom, small)
			} else {
				in, out = sdk.NewCoin(p.CounterpartyDenom, pow10i(22)), sdk.NewCoin(p.StandardDenom, small)
			}
		}
		h.cosmosTx(ctx, "swap", i, 600_000, nil, coinswaptypes.NewMsgSwapOrder(coinswaptypes.Input{Address: h.cfg.Addrs[i].String(), Coin: in},
			coinswaptypes.Output{Address: rcpt, Coin: out}, deadline, buy))
	case k < 56: // remove liquidity
		if len(pools) == 0 {
			return
		}
		p := pools[r.Intn(len(pools))]
		i := h.user()
		bal := a.BankKeeper.GetBalance(ctx, h.cfg.Addrs[i], p.LptDenom).Amount
		for x := 0; x < len(h.cfg.Addrs) && !bal.IsPositive() && !r.Chance(1, 10); x++ { // look for a holder of the pool token
			i = (i + 1) % len(h.cfg.Addrs)
			bal = a.BankKeeper.GetBalance(ctx, h.cfg.Addrs[i], p.LptDenom).Amount
		}
		w := bal.QuoRaw(int64(1 + r.Intn(4)))
		if !w.IsPositive() || r.Chance(1, 15) {
			w = bal.AddRaw(1)
		}
		h.cosmosTx(ctx, "remove", i, 600_000, nil, coinswaptypes.NewMsgRemoveLiquidity(sdkmath.ZeroInt(), sdk.NewCoin(p.LptDenom, w), sdkmath.ZeroInt(), deadline, h.cfg.Addrs[i].String()))
	case k < 64: // convert coin -> erc20
		pairs := a.Erc20Keeper.GetTokenPairs(ctx)
		if len(pairs) == 0 {
			return
		}
		p := pairs[r.Intn(len(pairs))]
		i := h.user()
		bal := a.BankKeeper.GetBalance(ctx, h.cfg.Addrs[i], p.Denom).Amount
		amt := sdkmath.NewInt(int64(1 + r.Intn(100000)))
		if bal.IsPositive() && r.Chance(1, 2) {
			amt = bal.QuoRaw(int64(2 + r.Intn(5))).AddRaw(1)
		}
		h.cosmosTx(ctx, "convert-coin", i, 3_000_000, nil, erc20types.NewMsgConvertCoin(sdk.NewCoin(p.Denom, amt), h.ethAddr(h.user()), h.cfg.Addrs[i]))
	case k < 70: // convert erc20 -> coin
		pairs := a.Erc20Keeper.GetTokenPairs(ctx)
		if len(pairs) == 0 {
			return
		}
		p := pairs[r.Intn(len(pairs))]
		i := h.user()
		amt := sdkmath.NewInt(int64(1 + r.Intn(5000)))
		// look for a holder of the token (the balance is read through the keeper's own read-only EVM call)
		for x := 0; x < len(h.cfg.Addrs) && !r.Chance(1, 8); x++ {
			if b := a.Erc20Keeper.BalanceOf(ctx, contracts.ERC20MinterBurnerDecimalsContract.ABI, p.GetERC20Contract(), h.ethAddr(i)); b != nil && b.Sign() > 0 {
				if b.IsInt64() && b.Int64() < 5000 {
					amt = sdkmath.NewInt(1 + int64(r.Intn(int(b.Int64()))))
				}
				break
			}
			i = (i + 1) % len(h.cfg.Addrs)
		}
		h.cosmosTx(ctx, "convert-erc20", i, 3_000_000, nil, erc20types.NewMsgConvertERC20(amt, h.cfg.Addrs[h.user()], p.GetERC20Contract(), h.ethAddr(i)))
	case k < 74: // delegate (moves the bonded ratio, which the inflation provision reads)
		i := h.user()
		h.cosmosTx(ctx, "delegate", i, 600_000, nil, stakingtypes.NewMsgDelegate(h.cfg.Addrs[i].String(), sdk.ValAddress(h.cfg.Addrs[0]).String(), sdk.NewCoin(bondDenom, pow10i(18+r.Intn(4)))))
	case k < 78: // plain EVM value transfer
		i := h.user()
		to := h.ethAddr(h.user())
		h.ethTx(ctx, "eth-send", i, &to, big.NewInt(int64(1+r.Intn(1_000_000))), 21000, nil, nil)
	case k < 83: // deploy a contract that can register itself with the Turnstile
		ts, ok := a.CSRKeeper.GetTurnstile(ctx)
		if !ok {
			return
		}
		i := h.user()
		ctor, _ := csrSmartContract.ABI.Pack("", ts)
		_, seq := h.acc(ctx, i)
		addr := crypto.CreateAddress(h.ethAddr(i), seq)
		h.ethTx(ctx, "eth-deploy-csr", i, nil, nil, 1_000_000, append(append([]byte{}, csrSmartContract.Bin...), ctor...), func() { h.csrCtrs = append(h.csrCtrs, addr) })
	case k < 90: // register / assign through the deployed contract (the registering transaction itself accrues revenue)
		if len(h.csrCtrs) == 0 {
			return
		}
		j := r.Intn(len(h.csrCtrs))
		c := h.csrCtrs[j]
		i := h.user()
		csrs := a.CSRKeeper.GetAllCSRs(ctx)
		var data []byte
		kind := "eth-csr-register"
		if len(csrs) > 0 && r.Chance(1, 2) {
			kind = "eth-csr-assign"
			data, _ = csrSmartContract.ABI.Pack("assign", new(big.Int).SetUint64(csrs[r.Intn(len(csrs))].Id))
		} else {
			data, _ = csrSmartContract.ABI.Pack("register", h.ethAddr(h.user()))
		}
		h.ethTx(ctx, kind, i, &c, nil, 1_000_000, data, func() {
			for x, cc := range h.csrCtrs {
				if cc == c {
					h.csrCtrs = append(h.csrCtrs[:x], h.csrCtrs[x+1:]...)
					break
				}
			}
			h.csrRegd = append(h.csrRegd, c)
		})
	case k < 92: // a second call on a registered contract reverts in the Turnstile (onlyUnregistered): failed EVM tx
		if len(h.csrRegd) == 0 {
			return
		}
		c := h.csrRegd[r.Intn(len(h.csrRegd))]
		data, _ := csrSmartContract.ABI.Pack("register", h.ethAddr(h.user()))
		h.ethTx(ctx, "eth-csr-reregister", h.user(), &c, nil, 500_000, data, nil)
	case k < 95: // user-deployed ERC20 (candidate for RegisterERC20)
		i := h.user()
		if r.Chance(1, 3) {
			// a batch token: one call emits Transfer(sender_j, erc20 module, 1) for three senders at once
			_, seq := h.acc(ctx, i)
			addr := crypto.CreateAddress(h.ethAddr(i), seq)
			h.ethTx(ctx, "eth-deploy-emitter", i, nil, nil, 1_000_000, emitterInit(fmt.Sprintf("batch%d", h.height)), func() {
				h.erc20s = append(h.erc20s, addr)
				h.erc20Own[addr] = i
				h.emitters[addr] = true
			})
			return
		}
		ctor, _ := contracts.ERC20MinterBurnerDecimalsContract.ABI.Pack("", fmt.Sprintf("tok%d", h.height), "TK", uint8(6))
		_, seq := h.acc(ctx, i)
		addr := crypto.CreateAddress(h.ethAddr(i), seq)
		h.ethTx(ctx, "eth-deploy-erc20", i, nil, nil, 3_000_000, append(append([]byte{}, contracts.ERC20MinterBurnerDecimalsContract.Bin...), ctor...), func() {
			h.erc20s = append(h.erc20s, addr)
			h.erc20Own[addr] = i
		})
	default: // ERC20 mint by the owner / transfer (a transfer to the erc20 module address triggers the conversion hook)
		pairs := a.Erc20Keeper.GetTokenPairs(ctx)
		var batch []common.Address
		for _, p := range pairs {
			if h.emitters[p.GetERC20Contract()] && p.Enabled {
				batch = append(batch, p.GetERC20Contract())
			}
		}
		if len(batch) > 0 && r.Chance(1, 2) {
			// one transaction, three conversions for three senders that have no account yet
			c := batch[r.Intn(len(batch))]
			data := []byte{0xba, 0x7c, 0x40, 0x01}
			for j := 0; j < 3; j++ {
				h.emitN++
				fresh := crypto.Keccak256([]byte(fmt.Sprintf("batch-sender-%d", h.emitN)))[12:]
				data = append(data, common.LeftPadBytes(fresh, 32)...)
			}
			data = append(data, common.LeftPadBytes(erc20types.ModuleAddress.Bytes(), 32)...)
			h.ethTx(ctx, "eth-batch-convert", h.user(), &c, nil, 500_000, data, nil)
			return
		}
		if len(h.erc20s) > 0 && r.Chance(1, 2) {
			c := h.erc20s[r.Intn(len(h.erc20s))]
			data, _ := contracts.ERC20MinterBurnerDecimalsContract.ABI.Pack("mint", h.ethAddr(h.user()), big.NewInt(int64(1000+r.Intn(1_000_000))))
			h.ethTx(ctx, "eth-erc20-mint", h.erc20Own[c], &c, nil, 300_000, data, nil)
		} else if len(pairs) > 0 {
			p := pairs[r.Intn(len(pairs))]
			to := h.ethAddr(h.user())
			if r.Chance(1, 2) {
				to = erc20types.ModuleAddress
			}
			if r.Chance(1, 2) {
				// a pair that was converted through the hook before and has been toggled off since: holders keep sending
				for _, q := range pairs {
					if h.hookConv[q.GetERC20Contract()] && !q.Enabled {
						p, to = q, erc20types.ModuleAddress
						h.stat["gen:transfer-to-module-of-switched-off-pair"]++
						break
					}
				}
			}
			c := p.GetERC20Contract()
			data, _ := contracts.ERC20MinterBurnerDecimalsContract.ABI.Pack("transfer", to, big.NewInt(int64(1+r.Intn(500))))
			// mostly a holder of the token (the balance is read through the keeper's own read-only EVM call)
			i := h.user()
			for x := 0; x < len(h.cfg.Addrs) && !r.Chance(1, 8); x++ {
				if b := a.Erc20Keeper.BalanceOf(ctx, contracts.ERC20MinterBurnerDecimalsContract.ABI, c, h.ethAddr(i)); b != nil && b.Cmp(big.NewInt(500)) > 0 {
					break
				}
				i = (i + 1) % len(h.cfg.Addrs)
			}
			var onOK func()
			if to == erc20types.ModuleAddress && p.Enabled {
				onOK = func() { h.hookConv[c] = true }
			}
			h.ethTx(ctx, "eth-erc20-transfer", i, &c, nil, 500_000, data, onOK)
		}
	}
}

func (h *Hist) genMalformed(ctx sdk.Context) {
	r := h.r
	i := h.user()
	switch r.Intn(5) {
	case 0: // garbage bytes
		bz := make([]byte, 20+r.Intn(60))
		for x := range bz {
			bz[x] = byte(r.Next())
		}
		h.pending = append(h.pending, pendingTx{spec: TxSpec{Kind: "bad-bytes", Signer: -1, Bytes: bz}})
	case 1: // corrupted signature
		num, seq := h.acc(ctx, i)
		bz, err := h.cfg.SignCosmos(h.ref.App, i, num, seq, 300_000, sdk.NewCoins(sdk.NewCoin(bondDenom, pow10i(15))), true,
			banktypes.NewMsgSend(h.cfg.Addrs[i], h.cfg.Addrs[0], sdk.NewCoins(sdk.NewCoin(bondDenom, sdkmath.OneInt()))))
		if err == nil {
			h.pending = append(h.pending, pendingTx{spec: TxSpec{Kind: "bad-sig", Signer: i, Bytes: bz}})
		}
	case 2: // wrong sequence
		num, seq := h.acc(ctx, i)
		bz, err := h.cfg.SignCosmos(h.ref.App, i, num, seq+7, 300_000, sdk.NewCoins(sdk.NewCoin(bondDenom, pow10i(15))), false,
			banktypes.NewMsgSend(h.cfg.Addrs[i], h.cfg.Addrs[0], sdk.NewCoins(sdk.NewCoin(bondDenom, sdkmath.OneInt()))))
		if err == nil {
			h.pending = append(h.pending, pendingTx{spec: TxSpec{Kind: "bad-seq", Signer: i, Bytes: bz}})
		}
	case 3: // a privileged message signed by a user: the authority is not the signer / not x/gov
		p := h.ref.App.CoinswapKeeper.GetParams(ctx)
		h.cosmosTx(ctx, "unauthorized-params", i, 300_000, nil, &coinswaptypes.MsgUpdateParams{Authority: h.cfg.Addrs[i].String(), Params: p})
	default: // out of gas
		h.cosmosTx(ctx, "out-of-gas", i, 30_000, nil, coinswaptypes.NewMsgAddLiquidity(sdk.NewCoin("ausdc", pow10i(22)), h.amt(), sdkmath.OneInt(), h.now.Unix()+60, h.cfg.Addrs[i].String()))
	}
}

// NextBlock advances height and time and generates the transactions of the block from the reference node's committed state.
func (h *Hist) NextBlock() (int64, time.Time, []TxSpec) {
	h.height++
	step := time.Duration(1+h.r.Intn(4)) * time.Second
	if h.r.Chance(1, 8) {
		step = time.Duration(5+h.r.Intn(20)) * time.Second
	}
	if h.r.Chance(1, 5) {
		step += time.Duration(h.r.Intn(1_000_000_000))
	}
	h.now = h.now.Add(step)
	h.pending = nil
	h.usedSeq = map[int]uint64{}
	if h.height == 1 {
		return h.height, h.now, nil // the first block only runs the begin blockers (Turnstile deployment)
	}
	ctx := h.ref.QueryCtx()
	h.votes(ctx)
	if h.burst > 0 && h.height >= 3 && h.genBurst(ctx) {
		var out []TxSpec
		for _, p := range h.pending {
			out = append(out, p.spec)
		}
		return h.height, h.now, out
	}
	n := h.r.Intn(h.txPerBlk + 1)
	if h.r.Chance(1, 10) {
		n = 0
	}
	for x := 0; x < n; x++ {
		switch k := h.r.Intn(100); {
		case k < 14:
			h.genProposal(ctx)
		case k < 22 && !h.noMalform:
			h.genMalformed(ctx)
		default:
			h.genUserTx(ctx)
		}
	}
	var out []TxSpec
	for _, p := range h.pending {
		out = append(out, p.spec)
	}
	return h.height, h.now, out
}

// hotTransfer: a holder sends tokens of a pair to the erc20 module address — a pair that was converted through the hook
// before: mostly one that has been toggled off since (holders keep sending), else any such pair.
func (h *Hist) hotTransfer(ctx sdk.Context) bool {
	a := h.ref.App
	var hot, hotOff []erc20types.TokenPair
	for _, q := range a.Erc20Keeper.GetTokenPairs(ctx) {
		if h.hookConv[q.GetERC20Contract()] {
			hot = append(hot, q)
			if !q.Enabled {
				hotOff = append(hotOff, q)
			}
		}
	}
	if len(hotOff) > 0 && h.r.Chance(3, 4) {
		hot = hotOff
		h.stat["gen:transfer-to-module-of-switched-off-pair"]++
	}
	if len(hot) == 0 {
		return false
	}
	p := hot[h.r.Intn(len(hot))]
	c := p.GetERC20Contract()
	abi := contracts.ERC20MinterBurnerDecimalsContract.ABI
	i := h.user()
	for x := 0; x < len(h.cfg.Addrs); x++ {
		if b := a.Erc20Keeper.BalanceOf(ctx, abi, c, h.ethAddr(i)); b != nil && b.Cmp(big.NewInt(500)) > 0 {
			break
		}
		i = (i + 1) % len(h.cfg.Addrs)
	}
	data, _ := abi.Pack("transfer", erc20types.ModuleAddress, big.NewInt(int64(1+h.r.Intn(500))))
	h.ethTx(ctx, "eth-erc20-transfer", i, &c, nil, 500_000, data, nil)
	return true
}

// genBurst: a block full of CSR contract deployments, or of registrations of the contracts deployed so far (each creates an
// NFT), until the registry holds h.burst NFTs.
func (h *Hist) genBurst(ctx sdk.Context) bool {
	a := h.ref.App
	ts, ok := a.CSRKeeper.GetTurnstile(ctx)
	if !ok || !a.CSRKeeper.GetParams(ctx).EnableCsr {
		return false
	}
	if len(a.CSRKeeper.GetAllCSRs(ctx)) >= h.burst {
		h.burst = 0
		return false
	}
	n := len(h.cfg.Addrs)
	if len(h.csrCtrs) < 30 {
		ctor, _ := csrSmartContract.ABI.Pack("", ts)
		for x := 0; x < 36; x++ {
			i := x % n
			_, seq := h.acc(ctx, i)
			addr := crypto.CreateAddress(h.ethAddr(i), seq)
			h.ethTx(ctx, "eth-deploy-csr", i, nil, nil, 1_000_000, append(append([]byte{}, csrSmartContract.Bin...), ctor...), func() { h.csrCtrs = append(h.csrCtrs, addr) })
		}
		return true
	}
	for x, c := range append([]common.Address{}, h.csrCtrs...) {
		c := c
		data, _ := csrSmartContract.ABI.Pack("register", h.ethAddr(x%n))
		h.ethTx(ctx, "eth-csr-register", x%n, &c, nil, 1_000_000, data, func() {
			for y, cc := range h.csrCtrs {
				if cc == c {
					h.csrCtrs = append(h.csrCtrs[:y], h.csrCtrs[y+1:]...)
					break
				}
			}
			h.csrRegd = append(h.csrRegd, c)
		})
	}
	return true
}

// Observe records the outcome of every transaction of the block (statistics + generator knowledge).
func (h *Hist) Observe(res *abci.ResponseFinalizeBlock) {
	for i, r := range res.TxResults {
		if i >= len(h.pending) {
			break
		}
		p := h.pending[i]
		kind := p.spec.Kind
		if r.Code == 0 {
			h.stat[kind+"/ok"]++
			if p.onOK != nil {
				p.onOK()
			}
		} else {
			h.stat[fmt.Sprintf("%s/rej:%s/%d", kind, r.Codespace, r.Code)]++
		}
	}
	for _, ev := range res.Events {
		switch ev.Type {
		case "epoch_end":
			h.stat["epoch-end"]++
		case "active_proposal":
			for _, at := range ev.Attributes {
				if at.Key == "proposal_result" {
					h.stat["proposal:"+at.Value]++
				}
			}
		}
	}
}

func txBytes(txs []TxSpec) [][]byte {
	out := make([][]byte, len(txs))
	for i, t := range txs {
		out[i] = t.Bytes
	}
	return out
}


// emitterInit: creation code of a hand-assembled "batch token". name() and symbol() answer the given string, decimals()
// answers 18; any other call with calldata sel | s1 | s2 | s3 | to emits Transfer(s1, to, 1), Transfer(s2, to, 1),
// Transfer(s3, to, 1) — the receipt of a batch payout / sweep — and moves nothing. (No Solidity compiler in the sandbox.)
func emitterInit(name string) []byte {
	sig := crypto.Keccak256([]byte("Transfer(address,address,uint256)"))
	push2 := func(v int) []byte { return []byte{0x61, byte(v >> 8), byte(v)} }
	sel := func(id uint32, target int) []byte {
		b := []byte{0x80, 0x63, byte(id >> 24), byte(id >> 16), byte(id >> 8), byte(id), 0x14}
		b = append(b, push2(target)...)
		return append(b, 0x57)
	}
	logFrom := func(off byte) []byte {
		b := []byte{0x60, 0x64, 0x35, 0x60, off, 0x35, 0x7f}
		b = append(b, sig...)
		return append(b, 0x60, 0x20, 0x60, 0x00, 0xa3)
	}
	build := func(strL, decL int) ([]byte, int, int) {
		rt := []byte{0x60, 0x00, 0x35, 0x60, 0xe0, 0x1c}
		rt = append(rt, sel(0x06fdde03, strL)...)
		rt = append(rt, sel(0x95d89b41, strL)...)
		rt = append(rt, sel(0x313ce567, decL)...)
		rt = append(rt, 0x60, 0x01, 0x60, 0x00, 0x52)
		rt = append(rt, logFrom(0x04)...)
		rt = append(rt, logFrom(0x24)...)
		rt = append(rt, logFrom(0x44)...)
		rt = append(rt, 0x00)
		s := len(rt)
		padded := make([]byte, 32)
		copy(padded, name)
		rt = append(rt, 0x5b, 0x60, 0x20, 0x60, 0x00, 0x52, 0x60, byte(len(name)), 0x60, 0x20, 0x52, 0x7f)
		rt = append(rt, padded...)
		rt = append(rt, 0x60, 0x40, 0x52, 0x60, 0x60, 0x60, 0x00, 0xf3)
		d := len(rt)
		rt = append(rt, 0x5b, 0x60, 0x12, 0x60, 0x00, 0x52, 0x60, 0x20, 0x60, 0x00, 0xf3)
		return rt, s, d
	}
	_, sL, dL := build(0, 0)
	rt, _, _ := build(sL, dL)
	init := append(append(push2(len(rt)), push2(15)...), 0x60, 0x00, 0x39)
	init = append(init, push2(len(rt))...)
	init = append(init, 0x60, 0x00, 0xf3)
	if len(init) != 15 || len(name) > 31 {
		panic("emitterInit: layout")
	}
	return append(init, rt...)
}
