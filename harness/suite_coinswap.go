package main

// Suite "coinswap": the real coinswap message server (SwapCoin, AddLiquidity, RemoveLiquidity) under the
// baseapp discipline, with bank donations, parameter changes and time steps in between.
// Serves C01, C02, C07, C08, C09.

import (
	"fmt"
	"math"
	"sort"
	"strings"
	"time"

	sdkmath "cosmossdk.io/math"
	sdk "github.com/cosmos/cosmos-sdk/types"
	authtypes "github.com/cosmos/cosmos-sdk/x/auth/types"
	govtypes "github.com/cosmos/cosmos-sdk/x/gov/types"

	coinswapkeeper "github.com/Canto-Network/Canto/v8/x/coinswap/keeper"
	coinswaptypes "github.com/Canto-Network/Canto/v8/x/coinswap/types"
)

var csDenoms = []string{"ausdc", "abtc", "ibc/ETH", "zjunk"}

type csSuite struct {
	w    *World
	r    *Rng
	t    *Trace
	ms   coinswaptypes.MsgServer
	std  string
	now  time.Time
	stat map[string]int
	scale int
	force bool // bias every choice towards a valid message (used to seed pools in a new world)
	laterOn bool // some transactions fail in a later message (coinswap suite only)
	later   bool // ... this one
}

// deliver: World.Deliver; with laterOn, one transaction in fifteen fails in a LATER message (a multi-message transaction
// whose second message is invalid): everything this message did is discarded with it.
func (s *csSuite) deliver(f func(ctx sdk.Context) error) Outcome {
	s.later = s.laterOn && !s.force && s.r.Intn(15) == 0
	hok := false
	out := s.w.Deliver(func(ctx sdk.Context) error {
		err := f(ctx)
		if err == nil && s.later {
			hok = true
			return fmt.Errorf("a later message of the transaction failed")
		}
		return err
	})
	if hok {
		out.Class = "later"
	}
	return out
}

func pow2(n int) sdkmath.Int {
	v := sdkmath.OneInt()
	for i := 0; i < n; i++ {
		v = v.MulRaw(2)
	}
	return v
}
func pow10(n int) sdkmath.Int { return sdkmath.NewIntWithDecimal(1, n) }

func (s *csSuite) envLine() string {
	w := s.w
	var blk []string
	for bech := range w.App.ModuleAccountAddrs() {
		a, _ := sdk.AccAddressFromBech32(bech)
		blk = append(blk, w.Alias(a))
	}
	sort.Strings(blk)
	var blkBank []string
	for bech := range w.App.BlockedAddrs() {
		a, _ := sdk.AccAddressFromBech32(bech)
		blkBank = append(blkBank, w.Alias(a))
	}
	sort.Strings(blkBank)
	var res []string
	for i := 1; i <= 40; i++ {
		lpt := fmt.Sprintf("lpt-%d", i)
		a := coinswaptypes.GetReservePoolAddr(lpt)
		w.SetAlias(a, "e."+lpt)
		res = append(res, lpt+":"+w.Alias(a))
	}
	return fmt.Sprintf("E mod=%s fc=%s blkcs=%s blkbank=%s res=%s",
		w.Alias(authtypes.NewModuleAddress(coinswaptypes.ModuleName)),
		w.Alias(authtypes.NewModuleAddress(authtypes.FeeCollectorName)),
		strings.Join(blk, ","), strings.Join(blkBank, ","), strings.Join(res, ","))
}

// module part of the state: t, std, params, seq, pools
func (s *csSuite) modState() string {
	w := s.w
	g := w.App.CoinswapKeeper.ExportGenesis(w.Ctx)
	var ms []string
	for _, c := range g.Params.MaxSwapAmount {
		ms = append(ms, tokenSafe(c.Denom)+":"+c.Amount.String())
	}
	var pools []string
	for _, p := range g.Pool {
		a, err := sdk.AccAddressFromBech32(p.EscrowAddress)
		if err != nil {
			panic(err)
		}
		pools = append(pools, tokenSafe(p.CounterpartyDenom)+":"+p.LptDenom+":"+w.Alias(a))
	}
	// the same records as the keeper's point lookups see them (by pool id and through the lpt-denom index)
	var pq []string
	for _, d := range csDenoms {
		if p, ok := w.App.CoinswapKeeper.GetPool(w.Ctx, coinswaptypes.GetPoolId(d)); ok {
			a, _ := sdk.AccAddressFromBech32(p.EscrowAddress)
			pq = append(pq, tokenSafe(p.CounterpartyDenom)+":"+p.LptDenom+":"+w.Alias(a))
		}
	}
	for i := uint64(1); i < g.Sequence+2; i++ {
		if p, ok := w.App.CoinswapKeeper.GetPoolByLptDenom(w.Ctx, fmt.Sprintf("lpt-%d", i)); ok {
			a, _ := sdk.AccAddressFromBech32(p.EscrowAddress)
			pq = append(pq, "byLpt."+tokenSafe(p.CounterpartyDenom)+":"+p.LptDenom+":"+w.Alias(a))
		}
	}
	bt := w.Ctx.BlockTime()
	return fmt.Sprintf("pq=%s ", strings.Join(pq, ",")) + fmt.Sprintf("t=%d.%d std=%s fee=%s tax=%s cfd=%s cfa=%s maxstd=%s ms=%s seq=%d pools=%s",
		bt.Unix(), bt.Nanosecond(), g.StandardDenom,
		g.Params.Fee.BigInt().String(), g.Params.TaxRate.BigInt().String(),
		tokenSafe(g.Params.PoolCreationFee.Denom), g.Params.PoolCreationFee.Amount.String(),
		g.Params.MaxStandardCoinPerPool.String(), strings.Join(ms, ","), g.Sequence, strings.Join(pools, ","))
}

func (s *csSuite) sync() { s.t.Line("S " + s.modState() + " " + s.w.Snapshot().Full()) }

func (s *csSuite) modDelta(pre string) string {
	post := s.modState()
	if post == pre {
		return ""
	}
	// only seq and pools can change through messages
	var out []string
	pm := map[string]string{}
	for _, kv := range strings.Fields(pre) {
		i := strings.Index(kv, "=")
		pm[kv[:i]] = kv[i+1:]
	}
	for _, kv := range strings.Fields(post) {
		i := strings.Index(kv, "=")
		if pm[kv[:i]] != kv[i+1:] {
			out = append(out, kv)
		}
	}
	return strings.Join(out, " ")
}

// magnitude mixture: mostly the world's own scale so that reserves stay comparable with order sizes
func (s *csSuite) amount() sdkmath.Int {
	r := s.r
	if r.Intn(20) < 18 {
		switch s.scale {
		case 0:
			return sdkmath.NewInt(int64(1 + r.Intn(6)))
		case 1:
			return sdkmath.NewInt(int64(1 + r.Intn(300)))
		case 2:
			return sdkmath.NewInt(int64(1 + r.Intn(10000000)))
		case 3:
			return pow10(15 + r.Intn(9)).MulRaw(int64(1 + r.Intn(9))).AddRaw(int64(r.Intn(3) - 1))
		default:
			return pow2(70 + r.Intn(30)).AddRaw(int64(r.Intn(3) - 1))
		}
	}
	switch r.Intn(20) {
	case 0, 1, 2, 3, 4, 5:
		return sdkmath.NewInt(int64(1 + r.Intn(5)))
	case 6, 7, 8, 9:
		return sdkmath.NewInt(int64(1 + r.Intn(200)))
	case 10, 11, 12, 13:
		return sdkmath.NewInt(int64(1 + r.Intn(1000000)))
	case 14, 15:
		return pow10(6 + r.Intn(20)).AddRaw(int64(r.Intn(3) - 1))
	case 16, 17:
		return r.Big(64 + r.Intn(60))
	case 18:
		return pow2(100 + r.Intn(50)).AddRaw(int64(r.Intn(3) - 1))
	default:
		return pow2(100 + r.Intn(150)).AddRaw(int64(r.Intn(3) - 1))
	}
}

// aroundDir: a bound next to the quote q; dir=-1: values <= q are satisfiable (minimums), dir=+1: values >= q (maximums)
func (s *csSuite) aroundDir(q sdkmath.Int, dir int) (res sdkmath.Int) {
	r := s.r
	defer func() {
		if x := recover(); x != nil {
			res = q // arithmetic on a huge quote overflowed: fall back to the quote itself
		}
	}()
	if s.force || r.Intn(10) < 6 {
		// satisfiable side
		switch r.Intn(4) {
		case 0:
			return q
		case 1:
			return q.AddRaw(int64(dir))
		case 2:
			if dir < 0 {
				return q.QuoRaw(2)
			}
			return q.MulRaw(2)
		default:
			if dir < 0 {
				return sdkmath.ZeroInt()
			}
			return q.Add(s.amount())
		}
	}
	switch r.Intn(3) {
	case 0:
		return q.SubRaw(int64(dir))
	case 1:
		return q
	default:
		return s.amount()
	}
}

func (s *csSuite) around(q sdkmath.Int) (res sdkmath.Int) {
	defer func() {
		if x := recover(); x != nil {
			res = q
		}
	}()
	switch s.r.Intn(8) {
	case 0:
		return q.SubRaw(1)
	case 1, 2, 3:
		return q
	case 4:
		return q.AddRaw(1)
	case 5:
		return sdkmath.ZeroInt()
	case 6:
		return q.MulRaw(2)
	default:
		return s.amount()
	}
}

func (s *csSuite) deadline() int64 {
	now := s.w.Ctx.BlockTime().Unix()
	if s.force {
		return now + 5
	}
	switch s.r.Intn(60) {
	case 0, 8:
		return now - 1
	case 1, 2, 9, 10, 11:
		return now
	case 3:
		return 0
	case 4:
		return -5
	case 5:
		return math.MaxInt64
	case 6:
		return math.MaxInt64 - 62135596800
	case 7:
		return math.MaxInt64 - 62135596801
	default:
		return now + 1 + int64(s.r.Intn(100))
	}
}

func (s *csSuite) denom(okBias int) string {
	r := s.r
	if s.force || r.Intn(100) < okBias {
		return csDenoms[r.Intn(3)]
	}
	switch r.Intn(8) {
	case 0:
		return "zjunk"
	case 1:
		return s.std
	case 2:
		return fmt.Sprintf("lpt-%d", 1+r.Intn(4))
	case 3:
		return "ab"
	case 4:
		return "1abc"
	case 5:
		return "lptx"
	case 6:
		return "bad!denom"
	default:
		return csDenoms[r.Intn(4)]
	}
}

func (s *csSuite) addrPick() (string, string) {
	r := s.r
	var a sdk.AccAddress
	switch r.Intn(12) {
	case 0:
		names := ModuleNames()
		a = authtypes.NewModuleAddress(names[r.Intn(len(names))])
	case 1:
		a = coinswaptypes.GetReservePoolAddr(fmt.Sprintf("lpt-%d", 1+r.Intn(3)))
	default:
		a = s.w.Users[r.Intn(len(s.w.Users))]
	}
	form := 0
	switch r.Intn(12) {
	case 0, 1, 2:
		form = 1
	case 3:
		form = 2 + r.Intn(2)
	}
	return s.w.AddrForms(a, form)
}

func (s *csSuite) userPick() (sdk.AccAddress, string, string) {
	r := s.r
	a := s.w.Users[r.Intn(len(s.w.Users))]
	form := 0
	switch r.Intn(40) {
	case 0, 1, 2, 3:
		form = 1
	case 4:
		form = 2 + r.Intn(2)
	}
	if s.force {
		form = 0
	}
	str, tok := s.w.AddrForms(a, form)
	return a, str, tok
}

func (s *csSuite) reserves(denom string) (pool coinswaptypes.Pool, X, Y, L sdkmath.Int, ok bool) {
	k := s.w.App.CoinswapKeeper
	pool, ok = k.GetPool(s.w.Ctx, coinswaptypes.GetPoolId(denom))
	if !ok {
		return
	}
	esc, _ := sdk.AccAddressFromBech32(pool.EscrowAddress)
	X = s.w.App.BankKeeper.GetBalance(s.w.Ctx, esc, s.std).Amount
	Y = s.w.App.BankKeeper.GetBalance(s.w.Ctx, esc, denom).Amount
	L = s.w.App.BankKeeper.GetSupply(s.w.Ctx, pool.LptDenom).Amount
	return
}

// the chain's registered accounting invariants (x/crisis: bank total supply, module accounts, ...), on the real state
func (s *csSuite) invariants() {
	msg := "ok"
	func() {
		defer func() {
			if r := recover(); r != nil {
				msg = "broken:" + tokenSafe(fmt.Sprint(r))
			}
		}()
		s.w.App.CrisisKeeper.AssertInvariants(s.w.Ctx)
	}()
	s.t.Line(fmt.Sprintf("I %d invariants=%s", s.t.seq, msg))
	s.stat["invariants:"+strings.SplitN(msg, ":", 2)[0]]++
}

func (s *csSuite) emit(kind, args string, out Outcome, resp string, preMod string, pre Snap) {
	s.t.seq++
	post := s.w.Snapshot()
	md := s.modDelta(preMod)
	if s.later {
		args += " later=1"
		s.later = false
	}
	line := fmt.Sprintf("O %d %s %s => %s %s | %s %s", s.t.seq, kind, args, out.String(), resp, md, Delta(pre, post))
	s.t.Line(line)
	key := kind + ":" + out.String()
	s.stat[key]++
	if out.Class == "panic" {
		m := out.Err
		if len(m) > 40 {
			m = m[:40]
		}
		s.stat["panicmsg:"+kind+":"+m]++
	}
}

func safeQuote(f func() sdkmath.Int) (v sdkmath.Int) {
	defer func() {
		if r := recover(); r != nil {
			v = sdkmath.NewInt(1)
		}
	}()
	return f()
}

func (s *csSuite) opAdd() {
	r := s.r
	_, senderStr, senderTok := s.userPick()
	tok := s.denom(88)
	exact := s.amount()
	maxTok := s.amount()
	minLiq := sdkmath.ZeroInt()
	if _, X, Y, L, ok := s.reserves(tok); ok && X.IsPositive() && L.IsPositive() {
		p := s.w.App.CoinswapKeeper.GetParams(s.w.Ctx)
		st := exact
		if room := p.MaxStandardCoinPerPool.Sub(X); room.IsPositive() && room.LT(st) {
			st = room
		}
		qDep := safeQuote(func() sdkmath.Int { return Y.Mul(st).Quo(X).AddRaw(1) })
		qMint := safeQuote(func() sdkmath.Int { return L.Mul(st).Quo(X) })
		if r.Intn(5) != 0 {
			maxTok = s.aroundDir(qDep, 1)
			if !maxTok.IsPositive() {
				maxTok = qDep
			}
		}
		if r.Intn(2) == 0 {
			minLiq = s.aroundDir(qMint, -1)
		}
	} else if r.Intn(3) == 0 {
		minLiq = s.aroundDir(exact, -1)
	}
	if !s.force {
		if r.Intn(25) == 0 {
			minLiq = sdkmath.NewInt(-1)
		}
		if r.Intn(40) == 0 {
			exact = sdkmath.NewInt(int64(-r.Intn(2)))
		}
		if r.Intn(40) == 0 {
			maxTok = sdkmath.ZeroInt()
		}
	}
	dl := s.deadline()
	msg := &coinswaptypes.MsgAddLiquidity{MaxToken: sdk.Coin{Denom: tok, Amount: maxTok}, ExactStandardAmt: exact, MinLiquidity: minLiq, Deadline: dl, Sender: senderStr}
	preMod, pre := s.modState(), s.w.Snapshot()
	resp := ""
	out := s.deliver(func(ctx sdk.Context) error {
		res, err := s.ms.AddLiquidity(ctx, msg)
		if err == nil {
			resp = "mint=" + res.MintToken.Denom + ":" + res.MintToken.Amount.String()
		}
		return err
	})
	if !out.OK {
		resp = ""
	}
	s.emit("add", fmt.Sprintf("sender=%s tok=%s max=%s exact=%s minliq=%s dl=%d", senderTok, tokenSafe(tok), maxTok, exact, minLiq, dl), out, resp, preMod, pre)
}

func (s *csSuite) opRemove() {
	r := s.r
	sender, senderStr, senderTok := s.userPick()
	// prefer an lpt the sender holds
	lpt := fmt.Sprintf("lpt-%d", 1+r.Intn(4))
	bals := s.w.App.BankKeeper.GetAllBalances(s.w.Ctx, sender)
	var held []sdk.Coin
	for _, c := range bals {
		if strings.HasPrefix(c.Denom, "lpt-") {
			held = append(held, c)
		}
	}
	w := s.amount()
	if len(held) > 0 && r.Intn(8) != 0 {
		c := held[r.Intn(len(held))]
		lpt = c.Denom
		switch r.Intn(6) {
		case 0:
			w = c.Amount
		case 1:
			w = c.Amount.AddRaw(1)
		case 2:
			w = c.Amount.QuoRaw(2)
		case 3:
			w = sdkmath.NewInt(1)
		default:
			if c.Amount.IsPositive() {
				w = r.Big(250).Mod(c.Amount).AddRaw(1)
			}
		}
	}
	switch r.Intn(30) {
	case 0:
		lpt = "lpt-x"
	case 1:
		lpt = "lpt-1-2"
	case 2:
		lpt = "abc-1"
	case 3:
		lpt = "lpt-18446744073709551616"
	case 4:
		w = sdkmath.ZeroInt()
	}
	minStd, minTok := sdkmath.ZeroInt(), sdkmath.ZeroInt()
	if pool, ok := s.w.App.CoinswapKeeper.GetPoolByLptDenom(s.w.Ctx, lpt); ok {
		_, X, Y, L, _ := s.reserves(pool.CounterpartyDenom)
		if L.IsPositive() && w.IsPositive() {
			qa := safeQuote(func() sdkmath.Int { return w.Mul(X).Quo(L) })
			qb := safeQuote(func() sdkmath.Int { return w.Mul(Y).Quo(L) })
			if r.Intn(2) == 0 {
				minStd = s.aroundDir(qa, -1)
			}
			if r.Intn(2) == 0 {
				minTok = s.aroundDir(qb, -1)
			}
		}
	}
	if r.Intn(30) == 0 {
		minStd = sdkmath.NewInt(-1)
	}
	if r.Intn(30) == 0 {
		minTok = sdkmath.NewInt(-1)
	}
	dl := s.deadline()
	msg := &coinswaptypes.MsgRemoveLiquidity{WithdrawLiquidity: sdk.Coin{Denom: lpt, Amount: w}, MinToken: minTok, MinStandardAmt: minStd, Deadline: dl, Sender: senderStr}
	preMod, pre := s.modState(), s.w.Snapshot()
	resp := ""
	out := s.deliver(func(ctx sdk.Context) error {
		res, err := s.ms.RemoveLiquidity(ctx, msg)
		if err == nil {
			var cs []string
			for _, c := range res.WithdrawCoins {
				cs = append(cs, c.Denom+":"+c.Amount.String())
			}
			resp = "coins=" + strings.Join(cs, ",")
		}
		return err
	})
	if !out.OK {
		resp = ""
	}
	s.emit("remove", fmt.Sprintf("sender=%s lpt=%s w=%s mintok=%s minstd=%s dl=%d", senderTok, tokenSafe(lpt), w, minTok, minStd, dl), out, resp, preMod, pre)
}

func (s *csSuite) opSwap() {
	r := s.r
	_, inStr, inTok := s.userPick()
	outStr, outTok := inStr, inTok
	if r.Intn(3) == 0 {
		outStr, outTok = s.addrPick()
	}
	if r.Intn(40) == 0 {
		// a message executed by governance: the gov module account pays, and is (or is not) its own recipient
		gov := authtypes.NewModuleAddress("gov")
		inStr, inTok = s.w.AddrForms(gov, r.Intn(2))
		if r.Intn(3) != 0 {
			outStr, outTok = inStr, inTok
		}
	}
	tok := s.denom(90)
	inD, outD := s.std, tok
	if r.Intn(2) == 0 {
		inD, outD = tok, s.std
	}
	if r.Intn(40) == 0 {
		outD = s.denom(90) // possible double swap / equal denoms
	}
	isBuy := r.Intn(2) == 0
	inAmt, outAmt := s.amount(), s.amount()
	p := s.w.App.CoinswapKeeper.GetParams(s.w.Ctx)
	if _, X, Y, _, ok := s.reserves(tok); ok && X.IsPositive() && Y.IsPositive() {
		inRes, outRes := X, Y
		if inD != s.std {
			inRes, outRes = Y, X
		}
		if isBuy {
			// exact output below the reserve most of the time
			switch r.Intn(8) {
			case 0:
				outAmt = outRes
			case 1:
				outAmt = outRes.AddRaw(1)
			case 2:
				outAmt = outRes.SubRaw(1)
			default:
				if outRes.GT(sdkmath.OneInt()) {
					outAmt = r.Big(250).Mod(outRes.SubRaw(1)).AddRaw(1)
					if r.Intn(2) == 0 && outAmt.GT(sdkmath.NewInt(1000)) {
						outAmt = outAmt.QuoRaw(int64(1 + r.Intn(1000)))
					}
				}
			}
			if outAmt.IsPositive() && outAmt.LT(outRes) {
				q := safeQuote(func() sdkmath.Int { return coinswapkeeper.GetOutputPrice(outAmt, inRes, outRes, p.Fee) })
				if r.Intn(6) != 0 {
					inAmt = s.aroundDir(q, 1)
					if !inAmt.IsPositive() {
						inAmt = q
					}
				}
			}
		} else {
			if r.Intn(3) != 0 {
				inAmt = r.Big(250).Mod(inRes.MulRaw(2).AddRaw(1)).AddRaw(1)
				if r.Intn(2) == 0 && inAmt.GT(sdkmath.NewInt(1000)) {
					inAmt = inAmt.QuoRaw(int64(1 + r.Intn(1000)))
				}
			}
			q := safeQuote(func() sdkmath.Int { return coinswapkeeper.GetInputPrice(inAmt, inRes, outRes, p.Fee) })
			if r.Intn(6) != 0 {
				outAmt = s.aroundDir(q, -1)
				if !outAmt.IsPositive() {
					outAmt = sdkmath.OneInt()
				}
			}
		}
	}
	if r.Intn(40) == 0 {
		inAmt = sdkmath.NewInt(int64(-r.Intn(2)))
	}
	if r.Intn(40) == 0 {
		outAmt = sdkmath.NewInt(int64(-r.Intn(2)))
	}
	dl := s.deadline()
	msg := &coinswaptypes.MsgSwapOrder{
		Input:  coinswaptypes.Input{Address: inStr, Coin: sdk.Coin{Denom: inD, Amount: inAmt}},
		Output: coinswaptypes.Output{Address: outStr, Coin: sdk.Coin{Denom: outD, Amount: outAmt}},
		Deadline: dl, IsBuyOrder: isBuy,
	}
	preMod, pre := s.modState(), s.w.Snapshot()
	out := s.deliver(func(ctx sdk.Context) error {
		_, err := s.ms.SwapCoin(ctx, msg)
		return err
	})
	b := 0
	if isBuy {
		b = 1
	}
	s.emit("swap", fmt.Sprintf("in=%s ind=%s ina=%s out=%s outd=%s outa=%s dl=%d buy=%d", inTok, tokenSafe(inD), inAmt, outTok, tokenSafe(outD), outAmt, dl, b), out, "", preMod, pre)
}

// the onboarding auto-swap: x/onboarding calls the keeper's TradeInputForExactOutput directly, payer = recipient
func (s *csSuite) opAutoSwap() {
	r := s.r
	rcpt := s.w.Users[r.Intn(len(s.w.Users))]
	tok := s.denom(92)
	out := s.amount()
	maxIn := s.amount()
	p := s.w.App.CoinswapKeeper.GetParams(s.w.Ctx)
	if _, X, Y, _, ok := s.reserves(tok); ok && X.IsPositive() && Y.IsPositive() {
		if X.GT(sdkmath.OneInt()) && r.Intn(6) != 0 {
			out = r.Big(250).Mod(X.SubRaw(1)).AddRaw(1)
			if r.Intn(2) == 0 && out.GT(sdkmath.NewInt(1000)) {
				out = out.QuoRaw(int64(1 + r.Intn(1000)))
			}
		}
		if out.IsPositive() && out.LT(X) {
			q := safeQuote(func() sdkmath.Int { return coinswapkeeper.GetOutputPrice(out, Y, X, p.Fee) })
			maxIn = s.aroundDir(q, 1)
			if !maxIn.IsPositive() {
				maxIn = q
			}
		}
	}
	preMod, pre := s.modState(), s.w.Snapshot()
	out2 := s.deliver(func(ctx sdk.Context) error {
		_, err := s.w.App.CoinswapKeeper.TradeInputForExactOutput(ctx,
			coinswaptypes.Input{Coin: sdk.Coin{Denom: tok, Amount: maxIn}, Address: rcpt.String()},
			coinswaptypes.Output{Coin: sdk.Coin{Denom: s.std, Amount: out}, Address: rcpt.String()})
		return err
	})
	s.emit("autoswap", fmt.Sprintf("rcpt=%s ind=%s maxin=%s out=%s", s.w.Alias(rcpt), tokenSafe(tok), maxIn, out), out2, "", preMod, pre)
}

func (s *csSuite) opSend() {
	r := s.r
	src := s.w.Users[r.Intn(len(s.w.Users))]
	var dst sdk.AccAddress
	if r.Intn(3) != 0 {
		dst = coinswaptypes.GetReservePoolAddr(fmt.Sprintf("lpt-%d", 1+r.Intn(4)))
	} else {
		dst = s.w.Users[r.Intn(len(s.w.Users))]
	}
	d := s.std
	if r.Intn(2) == 0 {
		d = csDenoms[r.Intn(4)]
	}
	amt := s.amount()
	if r.Intn(4) == 0 {
		// pool tokens themselves, parked in an escrow (their own pool's or another's)
		for _, c := range s.w.App.BankKeeper.GetAllBalances(s.w.Ctx, src) {
			if strings.HasPrefix(c.Denom, "lpt-") && c.Amount.IsPositive() {
				d = c.Denom
				amt = r.Big(250).Mod(c.Amount).AddRaw(1)
				if r.Intn(2) == 0 {
					dst = coinswaptypes.GetReservePoolAddr(d)
				}
				break
			}
		}
	}
	preMod, pre := s.modState(), s.w.Snapshot()
	out := s.w.Deliver(func(ctx sdk.Context) error {
		return s.w.App.BankKeeper.SendCoins(ctx, src, dst, sdk.NewCoins(sdk.NewCoin(d, amt)))
	})
	s.emit("send", fmt.Sprintf("src=%s dst=%s d=%s amt=%s", s.w.Alias(src), s.w.Alias(dst), tokenSafe(d), amt), out, "", preMod, pre)
}

func (s *csSuite) randDec() sdkmath.LegacyDec {
	r := s.r
	one := sdkmath.LegacyOneDec()
	switch r.Intn(8) {
	case 0:
		return sdkmath.LegacyZeroDec()
	case 1:
		return sdkmath.LegacySmallestDec()
	case 2:
		return sdkmath.LegacyNewDecWithPrec(3, 3)
	case 3:
		return sdkmath.LegacyNewDecWithPrec(5, 1)
	case 4:
		return one.Sub(sdkmath.LegacySmallestDec())
	default:
		return sdkmath.LegacyNewDecFromBigIntWithPrec(r.Big(59).Mod(pow10(18)).BigInt(), 18)
	}
}

func (s *csSuite) newParams() {
	r := s.r
	p := coinswaptypes.Params{Fee: s.randDec(), TaxRate: s.randDec()}
	feeD := s.std
	if r.Intn(3) == 0 {
		feeD = csDenoms[r.Intn(4)]
	}
	p.PoolCreationFee = sdk.NewCoin(feeD, sdkmath.NewInt(r.PickInt(0, 0, 1, 3, 1000, 1000000)))
	switch r.Intn(10) {
	case 0:
		p.MaxStandardCoinPerPool = s.amount().MulRaw(int64(1 + r.Intn(4)))
	case 1:
		p.MaxStandardCoinPerPool = s.amount().MulRaw(int64(1 + r.Intn(40)))
	case 2, 4:
		// exactly at / next to a current reserve
		_, X, _, _, ok := s.reserves(csDenoms[r.Intn(3)])
		if ok && X.IsPositive() {
			p.MaxStandardCoinPerPool = X.AddRaw(int64(r.Intn(3)))
		} else {
			p.MaxStandardCoinPerPool = pow10(24)
		}
	case 3, 5, 6:
		p.MaxStandardCoinPerPool = pow2(200)
	default:
		p.MaxStandardCoinPerPool = pow10(6 + r.Intn(20))
	}
	coins := sdk.Coins{}
	for _, d := range csDenoms[:3] {
		if r.Intn(12) == 0 {
			continue // not whitelisted in this episode
		}
		var m sdkmath.Int
		switch r.Intn(8) {
		case 0:
			m = s.amount()
		case 1:
			m = s.amount().MulRaw(int64(1 + r.Intn(10)))
		case 2, 3, 4:
			m = pow2(220)
		default:
			m = pow10(3 + r.Intn(24))
		}
		coins = coins.Add(sdk.NewCoin(d, m))
	}
	p.MaxSwapAmount = coins
	if err := p.Validate(); err != nil {
		panic(err)
	}
	s.w.App.CoinswapKeeper.SetParams(s.w.Ctx, p)
}

// opDiscardedParams: a governance proposal whose first message is a coinswap MsgUpdateParams that LOOSENS the risk limits
// (per-pool cap x1000, every per-swap maximum x1000, every denomination whitelisted) through the real handler, and whose later
// message fails: the handler succeeds on a branch that is then discarded. Nothing may remain, in the store or in process
// memory: the parameters observed through the keeper afterwards are the enacted ones, and the orders that follow are
// bounded by them (the driver expects "rejected, nothing changed" and flags C09 discarded_caps_unchanged otherwise).
func (s *csSuite) opDiscardedParams() {
	w := s.w
	p := w.App.CoinswapKeeper.GetParams(w.Ctx)
	np := p
	np.MaxStandardCoinPerPool = p.MaxStandardCoinPerPool.MulRaw(1000)
	coins := sdk.Coins{}
	for _, d := range csDenoms {
		if d == s.std {
			continue
		}
		m := p.MaxSwapAmount.AmountOf(d)
		if m.IsZero() {
			m = pow10(24)
		} else {
			m = m.MulRaw(1000)
		}
		coins = coins.Add(sdk.NewCoin(d, m))
	}
	np.MaxSwapAmount = coins
	if err := np.Validate(); err != nil {
		s.stat["discarded-params:invalid"]++
		return
	}
	auth := authtypes.NewModuleAddress(govtypes.ModuleName).String()
	preMod, pre := s.modState(), w.Snapshot()
	hok := false
	out := w.Deliver(func(ctx sdk.Context) error {
		_, err := s.ms.UpdateParams(ctx, &coinswaptypes.MsgUpdateParams{Authority: auth, Params: np})
		if err == nil {
			hok = true
			return fmt.Errorf("a later message of the transaction failed")
		}
		return err
	})
	if hok {
		out.Class = "later"
	}
	s.later = true
	s.emit("csparams", "loosen=1000", out, "", preMod, pre)
}

func (s *csSuite) stepTime() {
	r := s.r
	d := time.Duration(r.PickInt(0, 1, 500_000_000, 1_000_000_000, 1_500_000_000, 7_000_000_000, 100_000_000_000))
	s.now = s.now.Add(d)
	s.w.Ctx = s.w.Ctx.WithBlockTime(s.now).WithBlockHeight(s.w.Ctx.BlockHeight() + 1)
}

func init() { suites["coinswap"] = runCoinswap }

func runCoinswap(seed uint64, nOps int, outPath string) map[string]int {
	s := &csSuite{r: SeedRng("coinswap", seed), stat: map[string]int{}, laterOn: true}
	s.t = NewTrace(outPath)
	defer s.t.Close()
	done := 0
	for done < nOps {
		// a fresh world every 600 ops so that tiny reserves recur; each world has its own order-size scale
		s.scale = s.r.Intn(5)
		s.now = time.Unix(1_700_000_000+int64(s.r.Intn(1000)), int64(s.r.PickInt(0, 0, 500_000_000)))
		fund := sdk.NewCoins()
		s.w = NewWorld(5, sdk.NewCoins(sdk.NewCoin("stake", pow2(240)), sdk.NewCoin("ausdc", pow2(240)), sdk.NewCoin("abtc", pow2(240)), sdk.NewCoin("ibc/ETH", pow2(240)), sdk.NewCoin("zjunk", pow10(30))).Add(fund...), s.now)
		// the last user is poor: transfers out of it fail for insufficient funds *after* the earlier steps of a handler
		{
			poor := s.w.Users[len(s.w.Users)-1]
			for _, c := range s.w.App.BankKeeper.GetAllBalances(s.w.Ctx, poor) {
				keep := s.amount()
				if c.Amount.GT(keep) {
					if err := s.w.App.BankKeeper.SendCoins(s.w.Ctx, poor, s.w.Users[0], sdk.NewCoins(sdk.NewCoin(c.Denom, c.Amount.Sub(keep)))); err != nil {
						panic(err)
					}
				}
			}
		}
		// the gov module account holds coins (community spends, deposits): a proposal can make it the payer of a message
		if err := s.w.App.BankKeeper.SendCoins(s.w.Ctx, s.w.Users[0], authtypes.NewModuleAddress("gov"),
			sdk.NewCoins(sdk.NewCoin("stake", pow2(200)), sdk.NewCoin("ausdc", pow2(200)), sdk.NewCoin("abtc", pow2(200)), sdk.NewCoin("ibc/ETH", pow2(200)))); err != nil {
			panic(err)
		}
		// the fee collector and the distribution account hold coins too (collected fees, the community pool): an account
		// that is no party to a message can be debited only if it has something
		for _, m := range []string{"fee_collector", "distribution"} {
			if m == "distribution" {
				// through the community pool, so that the distribution module's own accounting agrees with its balance
				if err := s.w.App.DistrKeeper.FundCommunityPool(s.w.Ctx, sdk.NewCoins(sdk.NewCoin("stake", pow2(150)), sdk.NewCoin("ausdc", pow2(150))), s.w.Users[0]); err != nil {
					panic(err)
				}
				continue
			}
			if err := s.w.App.BankKeeper.SendCoins(s.w.Ctx, s.w.Users[0], authtypes.NewModuleAddress(m),
				sdk.NewCoins(sdk.NewCoin("stake", pow2(150)), sdk.NewCoin("ausdc", pow2(150)), sdk.NewCoin("abtc", pow2(150)), sdk.NewCoin("ibc/ETH", pow2(150)))); err != nil {
				panic(err)
			}
		}
		s.ms = coinswapkeeper.NewMsgServerImpl(s.w.App.CoinswapKeeper)
		s.std, _ = s.w.App.CoinswapKeeper.GetStandardDenom(s.w.Ctx)
		s.t.Line(s.envLine())
		for ep := 0; ep < 4 && done < nOps; ep++ {
			s.newParams()
			s.sync()
			if ep == 0 {
				// seed pools with mostly valid additions
				s.force = true
				for i := 0; i < 5 && done < nOps; i++ {
					s.opAdd()
					done++
				}
				s.force = false
			}
			for i := 0; i < 150 && done < nOps; i++ {
				k := s.r.Intn(20)
				if k >= 18 {
					s.stepTime()
					s.sync()
					continue
				}
				// a panic while *generating* an operation (arithmetic on extreme values) must not end the run
				func() {
					defer func() {
						if x := recover(); x != nil {
							s.stat["generator-panic"]++
							s.sync()
						}
					}()
					switch {
					case k < 5:
						s.opAdd()
					case k < 8:
						s.opRemove()
					case k < 15:
						s.opSwap()
					case k < 16:
						s.opAutoSwap()
					default:
						if s.laterOn && s.r.Intn(5) == 0 {
							s.opDiscardedParams()
						} else {
							s.opSend()
						}
					}
				}()
				done++
				if done%40 == 0 {
					s.invariants()
				}
			}
			s.invariants()
		}
	}
	return s.stat
}
