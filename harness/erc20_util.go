package main

// ScriptEVM: an implementation of the erc20 keeper's EVMKeeper interface that answers the keeper's ABI calls from an
// honest ERC-20 state machine kept in the CONTEXT'S KV store (so that a discarded branch of state also discards the
// token's writes), with one scripted deviation per operation at a chosen call index.  Every answer given to the keeper
// is recorded; the recording goes on the trace line and is what the Lean model is run against.

import (
	"context"
	"crypto/sha256"
	"encoding/hex"
	"encoding/json"
	"fmt"
	"math/big"
	"sort"
	"strings"

	storetypes "cosmossdk.io/store/types"
	sdk "github.com/cosmos/cosmos-sdk/types"
	banktypes "github.com/cosmos/cosmos-sdk/x/bank/types"
	"github.com/ethereum/go-ethereum/accounts/abi"
	"github.com/ethereum/go-ethereum/common"
	"github.com/ethereum/go-ethereum/core"
	ethtypes "github.com/ethereum/go-ethereum/core/types"
	"github.com/ethereum/go-ethereum/core/vm"
	"github.com/ethereum/go-ethereum/crypto"
	"github.com/evmos/ethermint/x/evm/statedb"
	evmtypes "github.com/evmos/ethermint/x/evm/types"

	"github.com/Canto-Network/Canto/v8/contracts"
	erc20types "github.com/Canto-Network/Canto/v8/x/erc20/types"
)

var erc20ABI = func() abi.ABI { return contracts.ERC20MinterBurnerDecimalsContract.ABI }

var (
	transferSig = crypto.Keccak256Hash([]byte("Transfer(address,address,uint256)"))
	approvalSig = crypto.Keccak256Hash([]byte("Approval(address,address,uint256)"))
	otherSig    = crypto.Keccak256Hash([]byte("Paused(address)"))
	two256      = new(big.Int).Lsh(big.NewInt(1), 256)
)

// Dev is the scripted deviation of one operation: at logical EVM call number At (1-based), do Kind instead of the honest thing.
type Dev struct {
	At   int
	Kind string
}

type ScriptEVM struct {
	key    storetypes.StoreKey
	ak     erc20types.AccountKeeper
	setSeq func(ctx sdk.Context, a sdk.AccAddress, seq uint64)
	alias  func(a sdk.AccAddress) string
	mod    common.Address
	calls  int
	dev    Dev
	fired  bool // the scripted deviation actually changed an answer
	rec    []string
}

var scriptPrefix = []byte{0xF0}

func (m *ScriptEVM) Reset(d Dev) { m.calls, m.dev, m.rec, m.fired = 0, d, nil, false }
func (m *ScriptEVM) Fired() bool  { return m.fired }
func (m *ScriptEVM) Recording() string {
	if len(m.rec) == 0 {
		return "-"
	}
	return strings.Join(m.rec, ",")
}

func (m *ScriptEVM) skey(kind string, parts ...[]byte) []byte {
	k := append([]byte{}, scriptPrefix...)
	k = append(k, []byte(kind)...)
	for _, p := range parts {
		k = append(k, p...)
	}
	return k
}
func (m *ScriptEVM) getN(ctx sdk.Context, k []byte) *big.Int {
	bz := ctx.KVStore(m.key).Get(k)
	return new(big.Int).SetBytes(bz)
}
func (m *ScriptEVM) setN(ctx sdk.Context, k []byte, v *big.Int) {
	if v.Sign() == 0 {
		ctx.KVStore(m.key).Delete(k)
		return
	}
	ctx.KVStore(m.key).Set(k, v.Bytes())
}
func (m *ScriptEVM) Bal(ctx sdk.Context, c, h common.Address) *big.Int {
	return m.getN(ctx, m.skey("bal", c.Bytes(), h.Bytes()))
}
func (m *ScriptEVM) setBal(ctx sdk.Context, c, h common.Address, v *big.Int) {
	m.setN(ctx, m.skey("bal", c.Bytes(), h.Bytes()), v)
}
func (m *ScriptEVM) Sup(ctx sdk.Context, c common.Address) *big.Int { return m.getN(ctx, m.skey("sup", c.Bytes())) }
func (m *ScriptEVM) setSup(ctx sdk.Context, c common.Address, v *big.Int) {
	m.setN(ctx, m.skey("sup", c.Bytes()), v)
}
func (m *ScriptEVM) flag(ctx sdk.Context, k []byte) bool { return ctx.KVStore(m.key).Has(k) }
func (m *ScriptEVM) setFlag(ctx sdk.Context, k []byte, on bool) {
	if on {
		ctx.KVStore(m.key).Set(k, []byte{1})
	} else {
		ctx.KVStore(m.key).Delete(k)
	}
}
func (m *ScriptEVM) HasCode(ctx sdk.Context, c common.Address) bool { return m.flag(ctx, m.skey("cod", c.Bytes())) }
func (m *ScriptEVM) SetCode(ctx sdk.Context, c common.Address, on bool) {
	m.setFlag(ctx, m.skey("cod", c.Bytes()), on)
}
func (m *ScriptEVM) HasBadMeta(ctx sdk.Context, c common.Address) bool {
	return m.flag(ctx, m.skey("bad", c.Bytes()))
}
func (m *ScriptEVM) SetBadMeta(ctx sdk.Context, c common.Address, on bool) {
	m.setFlag(ctx, m.skey("bad", c.Bytes()), on)
}
func (m *ScriptEVM) HasRole(ctx sdk.Context, c, a common.Address) bool {
	return m.flag(ctx, m.skey("rol", c.Bytes(), a.Bytes()))
}
func (m *ScriptEVM) SetRole(ctx sdk.Context, c, a common.Address) {
	m.setFlag(ctx, m.skey("rol", c.Bytes(), a.Bytes()), true)
}

// DumpTokens renders the script's whole token ledger as a map: tb:<c>:<holder> -> n, ts:<c> -> n, code:<c>, minter:<c>:<a>
func (m *ScriptEVM) DumpTokens(ctx sdk.Context) map[string]string {
	out := map[string]string{}
	it := storetypes.KVStorePrefixIterator(ctx.KVStore(m.key), scriptPrefix)
	defer it.Close()
	for ; it.Valid(); it.Next() {
		k := it.Key()[1:]
		kind, rest := string(k[:3]), k[3:]
		switch kind {
		case "bal":
			out["tb:"+m.alias(rest[:20])+":"+m.alias(rest[20:])] = new(big.Int).SetBytes(it.Value()).String()
		case "sup":
			out["ts:"+m.alias(rest[:20])] = new(big.Int).SetBytes(it.Value()).String()
		case "cod":
			out["code:"+m.alias(rest[:20])] = "1"
		case "rol":
			out["minter:"+m.alias(rest[:20])+":"+m.alias(rest[20:])] = "1"
		}
	}
	return out
}

// ---- EVMKeeper interface ----

func (m *ScriptEVM) GetParams(ctx sdk.Context) evmtypes.Params          { return evmtypes.DefaultParams() }
func (m *ScriptEVM) SetParams(ctx sdk.Context, p evmtypes.Params) error { return nil }
func (m *ScriptEVM) ChainID() *big.Int                                  { return big.NewInt(7700) }
func (m *ScriptEVM) GetNonce(ctx sdk.Context, a common.Address) uint64 {
	n, _ := m.ak.GetSequence(ctx, a.Bytes())
	return n
}
func (m *ScriptEVM) EthereumTx(c context.Context, msg *evmtypes.MsgEthereumTx) (*evmtypes.MsgEthereumTxResponse, error) {
	return nil, fmt.Errorf("ScriptEVM: EthereumTx is not scripted")
}

var emptyCodeHash = crypto.Keccak256(nil)

func (m *ScriptEVM) GetAccountWithoutBalance(ctx sdk.Context, addr common.Address) *statedb.Account {
	m.calls++
	has := m.HasCode(ctx, addr)
	if m.dev.At == m.calls && m.dev.Kind == "nocode" && has {
		has = false
		m.fired = true
	}
	if has {
		m.rec = append(m.rec, "code/ok/1/-")
		return &statedb.Account{CodeHash: crypto.Keccak256([]byte("code"))}
	}
	m.rec = append(m.rec, "code/ok/0/-")
	// both spellings of "no contract here": no account at all, or an account with the empty code hash
	if (len(m.rec)+int(addr[19]))%2 == 0 {
		return nil
	}
	return &statedb.Account{CodeHash: emptyCodeHash}
}

func (m *ScriptEVM) kindOf(to *common.Address, data []byte) string {
	if to == nil {
		return "create"
	}
	if len(data) < 4 {
		return "raw"
	}
	a := erc20ABI()
	meth, err := a.MethodById(data[:4])
	if err != nil {
		return "raw"
	}
	switch meth.Name {
	case "balanceOf":
		return "bal"
	case "burnCoins":
		return "burnc"
	case "transfer":
		return "xfer"
	case "symbol":
		return "sym"
	case "decimals":
		return "dec"
	}
	return meth.Name
}

func (m *ScriptEVM) EstimateGas(c context.Context, req *evmtypes.EthCallRequest) (*evmtypes.EstimateGasResponse, error) {
	if m.dev.At == m.calls+1 && m.dev.Kind == "gas" {
		var args evmtypes.TransactionArgs
		_ = json.Unmarshal(req.Args, &args)
		var data []byte
		if args.Data != nil {
			data = *args.Data
		}
		m.calls++
		m.fired = true
		m.rec = append(m.rec, m.kindOf(args.To, data)+"/err/-/-")
		return nil, fmt.Errorf("scripted: gas estimation failed")
	}
	return &evmtypes.EstimateGasResponse{Gas: 300000}, nil
}

func logsStr(ls []*evmtypes.Log) string {
	if len(ls) == 0 {
		return "-"
	}
	s := ""
	for _, l := range ls {
		switch {
		case len(l.Topics) == 0:
			s += "N"
		case l.Topics[0] == transferSig.Hex():
			s += "T"
		case l.Topics[0] == approvalSig.Hex():
			s += "A"
		default:
			s += "O"
		}
	}
	return s
}

func word(v *big.Int) []byte { return common.LeftPadBytes(v.Bytes(), 32) }

func transferLog(c, from, to common.Address, v *big.Int) *evmtypes.Log {
	return &evmtypes.Log{Address: c.Hex(), Topics: []string{transferSig.Hex(), common.BytesToHash(from.Bytes()).Hex(), common.BytesToHash(to.Bytes()).Hex()}, Data: word(v)}
}

func (m *ScriptEVM) answer(kind string, res *evmtypes.MsgEthereumTxResponse, err error) (*evmtypes.MsgEthereumTxResponse, error) {
	switch {
	case err != nil:
		m.rec = append(m.rec, kind+"/err/-/-")
	case res.VmError != "":
		m.rec = append(m.rec, kind+"/rev/-/-")
	default:
		ret := "-"
		if len(res.Ret) == 32 {
			ret = new(big.Int).SetBytes(res.Ret).String()
		}
		m.rec = append(m.rec, kind+"/ok/"+ret+"/"+logsStr(res.Logs))
	}
	return res, err
}

func reverted() *evmtypes.MsgEthereumTxResponse {
	return &evmtypes.MsgEthereumTxResponse{VmError: vm.ErrExecutionReverted.Error()}
}

func devApplies(dev, kind string) bool {
	switch dev {
	case "err", "revert":
		return true
	case "bal+1", "bal-1", "balnil", "balbad":
		return kind == "bal"
	case "amt+1", "amt-1", "amtx2", "neg", "noop", "revertmoved":
		return kind == "mint" || kind == "burnc" || kind == "burn" || kind == "xfer"
	case "false", "falsemoved", "retempty", "retbad", "ret2", "approval", "approvalfirst", "approval1", "approval4", "notopics", "otherlog", "credit":
		return kind == "xfer"
	case "qnil":
		return kind == "name" || kind == "sym" || kind == "dec"
	}
	return false
}

// ApplyMessage: the honest ERC20MinterBurnerDecimals semantics, or the scripted deviation at this call index.
func (m *ScriptEVM) ApplyMessage(ctx sdk.Context, msg core.Message, tracer vm.EVMLogger, commit bool) (*evmtypes.MsgEthereumTxResponse, error) {
	m.calls++
	dev := ""
	if m.dev.At == m.calls {
		dev = m.dev.Kind
	}
	kind := m.kindOf(msg.To(), msg.Data())
	if dev != "" {
		if devApplies(dev, kind) {
			m.fired = true
		} else {
			dev = ""
		}
	}
	if dev == "err" {
		return m.answer(kind, nil, fmt.Errorf("scripted: ApplyMessage failed"))
	}
	if dev == "revert" {
		return m.answer(kind, reverted(), nil)
	}
	from := msg.From()
	if msg.To() == nil {
		// contract creation by `from`: the nonce is bumped no matter the result (ethermint ApplyMessageWithConfig)
		addr := crypto.CreateAddress(from, msg.Nonce())
		if commit {
			m.setSeq(ctx, from.Bytes(), msg.Nonce()+1)
		}
		if m.HasCode(ctx, addr) {
			return m.answer(kind, &evmtypes.MsgEthereumTxResponse{VmError: vm.ErrContractAddressCollision.Error()}, nil)
		}
		if commit {
			m.SetCode(ctx, addr, true)
			m.SetRole(ctx, addr, from)
		}
		return m.answer(kind, &evmtypes.MsgEthereumTxResponse{Ret: []byte{0x60, 0x80}}, nil)
	}
	c := *msg.To()
	if !m.HasCode(ctx, c) {
		// a call to an address without code succeeds and returns nothing
		return m.answer(kind, &evmtypes.MsgEthereumTxResponse{}, nil)
	}
	a := erc20ABI()
	meth, err := a.MethodById(msg.Data()[:4])
	if err != nil {
		return m.answer(kind, reverted(), nil)
	}
	args, err := meth.Inputs.Unpack(msg.Data()[4:])
	if err != nil {
		return m.answer(kind, reverted(), nil)
	}
	zero := common.Address{}
	res := &evmtypes.MsgEthereumTxResponse{}
	adj := func(v *big.Int) *big.Int {
		switch dev {
		case "amt+1":
			return new(big.Int).Add(v, big.NewInt(1))
		case "amt-1":
			return new(big.Int).Sub(v, big.NewInt(1))
		case "amtx2":
			return new(big.Int).Lsh(v, 1)
		}
		return v
	}
	// "neg": the movement happens in the opposite direction (where the ledger allows it, else nothing moves)
	neg := dev == "neg"
	switch meth.Name {
	case "name", "symbol", "decimals":
		if dev == "qnil" {
			return m.answer(kind, res, nil)
		}
		switch meth.Name {
		case "name":
			res.Ret, _ = meth.Outputs.Pack("Token " + strings.ToUpper(m.alias(c.Bytes())))
		case "symbol":
			sym := strings.ToUpper(m.alias(c.Bytes()))
			if m.HasBadMeta(ctx, c) {
				sym = ""
			}
			res.Ret, _ = meth.Outputs.Pack(sym)
		default:
			res.Ret, _ = meth.Outputs.Pack(uint8(18))
		}
		// the recorded word only says "decodable"
		m.rec = append(m.rec, kind+"/ok/1/-")
		return res, nil
	case "balanceOf":
		v := m.Bal(ctx, c, args[0].(common.Address))
		switch dev {
		case "bal+1":
			v = new(big.Int).Add(v, big.NewInt(1))
		case "bal-1":
			if v.Sign() > 0 {
				v = new(big.Int).Sub(v, big.NewInt(1))
			}
		case "balnil":
			return m.answer(kind, res, nil)
		case "balbad":
			res.Ret = make([]byte, 31)
			return m.answer(kind, res, nil)
		}
		res.Ret = word(v)
		return m.answer(kind, res, nil)
	case "mint":
		to, amt := args[0].(common.Address), adj(args[1].(*big.Int))
		if !m.HasRole(ctx, c, from) || to == zero {
			return m.answer(kind, reverted(), nil)
		}
		ns := new(big.Int).Add(m.Sup(ctx, c), amt)
		if ns.Cmp(two256) >= 0 || amt.Sign() < 0 {
			return m.answer(kind, reverted(), nil)
		}
		if neg {
			if b := m.Bal(ctx, c, to); commit && b.Cmp(amt) >= 0 && m.Sup(ctx, c).Cmp(amt) >= 0 {
				m.setBal(ctx, c, to, new(big.Int).Sub(b, amt))
				m.setSup(ctx, c, new(big.Int).Sub(m.Sup(ctx, c), amt))
			}
		} else if dev != "noop" && commit {
			m.setSup(ctx, c, ns)
			m.setBal(ctx, c, to, new(big.Int).Add(m.Bal(ctx, c, to), amt))
		}
		res.Logs = []*evmtypes.Log{transferLog(c, zero, to, amt)}
		if dev == "revertmoved" {
			// a contract that reports the revert of a call (bare revert, no reason) whose effect it nevertheless shows in
			// every later answer: the keeper must go by the revert
			return m.answer(kind, reverted(), nil)
		}
		return m.answer(kind, res, nil)
	case "burnCoins", "burn":
		var who common.Address
		var amt *big.Int
		if meth.Name == "burnCoins" {
			who, amt = args[0].(common.Address), adj(args[1].(*big.Int))
			if !m.HasRole(ctx, c, from) {
				return m.answer(kind, reverted(), nil)
			}
		} else {
			who, amt = from, adj(args[0].(*big.Int))
		}
		b := m.Bal(ctx, c, who)
		if who == zero || b.Cmp(amt) < 0 || amt.Sign() < 0 || m.Sup(ctx, c).Cmp(amt) < 0 {
			return m.answer(kind, reverted(), nil)
		}
		if neg {
			if ns := new(big.Int).Add(m.Sup(ctx, c), amt); commit && ns.Cmp(two256) < 0 {
				m.setBal(ctx, c, who, new(big.Int).Add(b, amt))
				m.setSup(ctx, c, ns)
			}
		} else if dev != "noop" && commit {
			m.setBal(ctx, c, who, new(big.Int).Sub(b, amt))
			m.setSup(ctx, c, new(big.Int).Sub(m.Sup(ctx, c), amt))
		}
		res.Logs = []*evmtypes.Log{transferLog(c, who, zero, amt)}
		if dev == "revertmoved" {
			return m.answer(kind, reverted(), nil)
		}
		return m.answer(kind, res, nil)
	case "transfer":
		to, amt := args[0].(common.Address), adj(args[1].(*big.Int))
		b := m.Bal(ctx, c, from)
		if dev == "false" {
			res.Ret = word(big.NewInt(0))
			return m.answer(kind, res, nil)
		}
		if amt.Sign() < 0 || (dev != "credit" && (to == zero || from == zero || b.Cmp(amt) < 0)) {
			return m.answer(kind, reverted(), nil)
		}
		if neg {
			if tb := m.Bal(ctx, c, to); commit && tb.Cmp(amt) >= 0 && to != from {
				m.setBal(ctx, c, to, new(big.Int).Sub(tb, amt))
				m.setBal(ctx, c, from, new(big.Int).Add(b, amt))
			}
		} else if dev != "noop" && commit {
			if dev == "credit" {
				// credits the recipient without debiting the sender (total supply grows)
				m.setSup(ctx, c, new(big.Int).Add(m.Sup(ctx, c), amt))
			} else {
				m.setBal(ctx, c, from, new(big.Int).Sub(b, amt))
			}
			m.setBal(ctx, c, to, new(big.Int).Add(m.Bal(ctx, c, to), amt))
		}
		res.Logs = []*evmtypes.Log{transferLog(c, from, to, amt)}
		res.Ret = word(big.NewInt(1))
		apr := &evmtypes.Log{Address: c.Hex(), Topics: []string{approvalSig.Hex(), common.BytesToHash(from.Bytes()).Hex(), common.BytesToHash(to.Bytes()).Hex()}, Data: word(amt)}
		switch dev {
		case "falsemoved":
			res.Ret = word(big.NewInt(0))
		case "retempty":
			res.Ret = nil
		case "retbad":
			res.Ret = make([]byte, 31)
		case "ret2":
			res.Ret = word(big.NewInt(2))
		case "approval":
			res.Logs = append(res.Logs, apr)
		case "approvalfirst":
			res.Logs = append([]*evmtypes.Log{apr}, res.Logs...)
		case "approval1":
			// the same event id with non-indexed parameters (one topic, everything in the data)
			res.Logs = append(res.Logs, &evmtypes.Log{Address: c.Hex(), Topics: []string{approvalSig.Hex()},
				Data: append(append(common.LeftPadBytes(from.Bytes(), 32), common.LeftPadBytes(to.Bytes(), 32)...), word(amt)...)})
		case "approval4":
			res.Logs = append(res.Logs, &evmtypes.Log{Address: c.Hex(), Topics: []string{approvalSig.Hex(), common.BytesToHash(from.Bytes()).Hex(),
				common.BytesToHash(to.Bytes()).Hex(), common.BytesToHash(amt.Bytes()).Hex()}})
		case "notopics":
			res.Logs = append(res.Logs, &evmtypes.Log{Address: c.Hex(), Topics: []string{}, Data: word(amt)})
		case "otherlog":
			res.Logs = append(res.Logs, &evmtypes.Log{Address: c.Hex(), Topics: []string{otherSig.Hex()}, Data: word(amt)})
		case "revertmoved":
			return m.answer(kind, reverted(), nil)
		}
		return m.answer(kind, res, nil)
	}
	return m.answer(kind, reverted(), nil)
}

// ---- holder transactions on the honest token (what an Ethereum transaction by a token holder does) ----

// HolderCall executes transfer / burn by holder on contract c and returns the logs of the receipt; reverted=true: nothing changed.
func (m *ScriptEVM) HolderCall(ctx sdk.Context, c, holder common.Address, call string, to common.Address, amt *big.Int) (logs []*ethtypes.Log, revertedTx bool) {
	if !m.HasCode(ctx, c) {
		return nil, false
	}
	zero := common.Address{}
	b := m.Bal(ctx, c, holder)
	mk := func(from, to common.Address) []*ethtypes.Log {
		return []*ethtypes.Log{{Address: c, Topics: []common.Hash{transferSig, common.BytesToHash(from.Bytes()), common.BytesToHash(to.Bytes())}, Data: word(amt)}}
	}
	switch call {
	case "xfer":
		if to == zero || b.Cmp(amt) < 0 {
			return nil, true
		}
		m.setBal(ctx, c, holder, new(big.Int).Sub(b, amt))
		m.setBal(ctx, c, to, new(big.Int).Add(m.Bal(ctx, c, to), amt))
		return mk(holder, to), false
	case "burn":
		if b.Cmp(amt) < 0 || m.Sup(ctx, c).Cmp(amt) < 0 {
			return nil, true
		}
		m.setBal(ctx, c, holder, new(big.Int).Sub(b, amt))
		m.setSup(ctx, c, new(big.Int).Sub(m.Sup(ctx, c), amt))
		return mk(holder, zero), false
	case "approve":
		// OpenZeppelin _approve: reverts for the zero spender, moves nothing, emits Approval(owner, spender, value)
		if to == zero {
			return nil, true
		}
		return []*ethtypes.Log{{Address: c, Topics: []common.Hash{approvalSig, common.BytesToHash(holder.Bytes()), common.BytesToHash(to.Bytes())}, Data: word(amt)}}, false
	}
	return nil, true
}

// DeployExternal: somebody deploys an honest token at address c and receives the initial supply.
func (m *ScriptEVM) DeployExternal(ctx sdk.Context, c, deployer common.Address, supply *big.Int) bool {
	if m.HasCode(ctx, c) {
		return false
	}
	m.SetCode(ctx, c, true)
	m.SetRole(ctx, c, deployer)
	m.setSup(ctx, c, new(big.Int).Add(m.Sup(ctx, c), supply))
	m.setBal(ctx, c, deployer, new(big.Int).Add(m.Bal(ctx, c, deployer), supply))
	return true
}

// ---- shared by the erc20 suites: digests, raw registry dump ----

func metaDigest(md banktypes.Metadata) string {
	if strings.HasPrefix(md.Description, "Cosmos coin token representation of ") {
		return "erc20"
	}
	s := fmt.Sprintf("%q|%q|%q|%q|%q", md.Base, md.Description, md.Display, md.Name, md.Symbol)
	for _, u := range md.DenomUnits {
		s += fmt.Sprintf("|%q:%d:%q", u.Denom, u.Exponent, u.Aliases)
	}
	h := sha256.Sum256([]byte(s))
	return hex.EncodeToString(h[:4])
}

// idTable translates 32-byte pair ids back to their preimage (address alias, denom): the model treats sha256 symbolically.
type idTable struct {
	m     map[string][2]string
	addrs map[string]string // EIP-55 string -> alias
	dens  map[string]bool
}

func newIDTable() *idTable {
	return &idTable{m: map[string][2]string{}, addrs: map[string]string{}, dens: map[string]bool{}}
}
func (t *idTable) learn(addrHex, alias, denom string) {
	newA, newD := false, false
	if addrHex != "" {
		if _, ok := t.addrs[addrHex]; !ok {
			t.addrs[addrHex] = alias
			newA = true
		}
	}
	if denom != "" && !t.dens[denom] {
		t.dens[denom] = true
		newD = true
	}
	if newA {
		for d := range t.dens {
			h := sha256.Sum256([]byte(addrHex + "|" + d))
			t.m[string(h[:])] = [2]string{alias, d}
		}
	}
	if newD {
		for a, al := range t.addrs {
			h := sha256.Sum256([]byte(a + "|" + denom))
			t.m[string(h[:])] = [2]string{al, denom}
		}
	}
}
func (t *idTable) render(id []byte) string {
	if p, ok := t.m[string(id)]; ok {
		return p[0] + ":" + tokenSafe(p[1])
	}
	return "h" + hex.EncodeToString(id) + ":?"
}

func ownerStr(o erc20types.Owner) string {
	switch o {
	case erc20types.OWNER_MODULE:
		return "m"
	case erc20types.OWNER_EXTERNAL:
		return "e"
	}
	return "u"
}

func sortedJoin(xs []string) string {
	sort.Strings(xs)
	return strings.Join(xs, ",")
}
