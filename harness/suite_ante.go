package main

// Suite "ante" (C19): the application's real AnteHandler (app.AnteHandler()) on generated transactions:
// every kind of extension option x message mixes x authz trees (MsgExec nests up to depth 8 with sibling
// MsgExecs, MsgGrant of every kind of target, a disabled message at every position).
// Cosmos transactions are signed in SIGN_MODE_DIRECT, Ethereum transactions carry a signed MsgEthereumTx, one EIP-712
// shape (a bank send) is signed as legacy typed data — so that correctly routed, well-formed transactions pass the
// WHOLE chain.  The observation is the class of the answer: ok, one of the routing rejections, or a later check.

import (
	"crypto/sha256"
	"fmt"
	"math/big"
	"strings"
	"time"

	sdkmath "cosmossdk.io/math"
	storetypes "cosmossdk.io/store/types"
	"github.com/cosmos/cosmos-sdk/client"
	clienttx "github.com/cosmos/cosmos-sdk/client/tx"
	sdkcodec "github.com/cosmos/cosmos-sdk/codec"
	codectypes "github.com/cosmos/cosmos-sdk/codec/types"
	cryptotypes "github.com/cosmos/cosmos-sdk/crypto/types"
	sdk "github.com/cosmos/cosmos-sdk/types"
	sdkerrors "github.com/cosmos/cosmos-sdk/types/errors"
	"github.com/cosmos/cosmos-sdk/types/tx/signing"
	"github.com/cosmos/cosmos-sdk/x/auth/migrations/legacytx"
	authsigning "github.com/cosmos/cosmos-sdk/x/auth/signing"
	authtx "github.com/cosmos/cosmos-sdk/x/auth/tx"
	authtypes "github.com/cosmos/cosmos-sdk/x/auth/types"
	vestingtypes "github.com/cosmos/cosmos-sdk/x/auth/vesting/types"
	"github.com/cosmos/cosmos-sdk/x/authz"
	banktypes "github.com/cosmos/cosmos-sdk/x/bank/types"
	govv1 "github.com/cosmos/cosmos-sdk/x/gov/types/v1"
	stakingtypes "github.com/cosmos/cosmos-sdk/x/staking/types"
	"github.com/ethereum/go-ethereum/common"
	ethtypes "github.com/ethereum/go-ethereum/core/types"
	"github.com/ethereum/go-ethereum/crypto"
	"github.com/ethereum/go-ethereum/signer/core/apitypes"
	cryptocodec "github.com/evmos/ethermint/crypto/codec"
	"github.com/evmos/ethermint/crypto/ethsecp256k1"
	"github.com/evmos/ethermint/ethereum/eip712"
	"github.com/evmos/ethermint/tests"
	ethermint "github.com/evmos/ethermint/types"
	evmtypes "github.com/evmos/ethermint/x/evm/types"

	erc20types "github.com/Canto-Network/Canto/v8/x/erc20/types"
)

const (
	urlExtEth  = "/ethermint.evm.v1.ExtensionOptionsEthereumTx"
	urlExtWeb3 = "/ethermint.types.v1.ExtensionOptionsWeb3Tx"
	urlExtDyn  = "/ethermint.types.v1.ExtensionOptionDynamicFeeTx"
	urlExtUnk  = "/canto.verif.v1.ExtensionOptionsUnknown"
)

type aNode struct {
	kind string // leaf | exec | grant
	url  string
	kids []*aNode
}

func (n *aNode) String() string {
	switch n.kind {
	case "exec":
		var ks []string
		for _, k := range n.kids {
			ks = append(ks, k.String())
		}
		return "E(" + strings.Join(ks, ",") + ")"
	case "grant":
		return "G" + n.url
	default:
		return "L" + n.url
	}
}

type aSuite struct {
	w     *World
	r     *Rng
	t     *Trace
	stat  map[string]int
	keys  []cryptotypes.PrivKey
	addrs []sdk.AccAddress
	txc   client.TxConfig
	nonce uint64
}

func detKey(seed uint64, i int) *ethsecp256k1.PrivKey {
	h := sha256.Sum256([]byte(fmt.Sprintf("canto-verif-key-%d-%d", seed, i)))
	return &ethsecp256k1.PrivKey{Key: h[:]}
}

var (
	urlEth    = sdk.MsgTypeURL(&evmtypes.MsgEthereumTx{})
	urlVest   = []string{sdk.MsgTypeURL(&vestingtypes.MsgCreateVestingAccount{}), sdk.MsgTypeURL(&vestingtypes.MsgCreatePermanentLockedAccount{}), sdk.MsgTypeURL(&vestingtypes.MsgCreatePeriodicVestingAccount{})}
	urlSend   = sdk.MsgTypeURL(&banktypes.MsgSend{})
	urlOthers = []string{sdk.MsgTypeURL(&banktypes.MsgSend{}), sdk.MsgTypeURL(&stakingtypes.MsgDelegate{}), sdk.MsgTypeURL(&govv1.MsgVote{}), sdk.MsgTypeURL(&erc20types.MsgConvertCoin{})}
	urlGrantX = []string{"/cosmos.vesting.v1beta1.MsgCreateVestingAccountX", "/ethermint.evm.v1.MsgEthereumTxResponse", "/cosmos.authz.v1beta1.MsgExec", "/cosmos.authz.v1beta1.MsgGrant"}
)

// ---------- building real messages from the tree ----------

func (s *aSuite) ethMsg(signer int) *evmtypes.MsgEthereumTx {
	w := s.w
	from := common.BytesToAddress(s.addrs[signer])
	to := common.BytesToAddress([]byte{0xaa, byte(s.r.Intn(200))})
	chainID := w.App.EvmKeeper.ChainID()
	nonce := w.App.EvmKeeper.GetNonce(w.Ctx, from) + s.nonce
	s.nonce++
	gasPrice := new(big.Int).Mul(big.NewInt(20), big.NewInt(1_000_000_000))
	msg := evmtypes.NewTx(chainID, nonce, &to, big.NewInt(1), 100000, gasPrice, nil, nil, nil, nil)
	msg.From = from.Hex()
	if err := msg.Sign(ethtypes.LatestSignerForChainID(chainID), tests.NewSigner(s.keys[signer])); err != nil {
		panic(err)
	}
	msg.From = ""
	return msg
}

func (s *aSuite) leafMsg(url string, signer int) sdk.Msg {
	u := s.addrs[signer]
	v := s.addrs[(signer+1)%len(s.addrs)]
	one := sdk.NewCoins(sdk.NewInt64Coin("acanto", 1))
	switch url {
	case urlEth:
		return s.ethMsg(signer)
	case urlVest[0]:
		return &vestingtypes.MsgCreateVestingAccount{FromAddress: u.String(), ToAddress: sdk.AccAddress([]byte("fresh_vesting_acct__")).String(), Amount: one, EndTime: 1_900_000_000}
	case urlVest[1]:
		return &vestingtypes.MsgCreatePermanentLockedAccount{FromAddress: u.String(), ToAddress: sdk.AccAddress([]byte("fresh_locked_acct___")).String(), Amount: one}
	case urlVest[2]:
		return &vestingtypes.MsgCreatePeriodicVestingAccount{FromAddress: u.String(), ToAddress: sdk.AccAddress([]byte("fresh_periodic_acct_")).String(), StartTime: 1_800_000_000,
			VestingPeriods: []vestingtypes.Period{{Length: 100, Amount: one}}}
	case urlOthers[1]:
		return &stakingtypes.MsgDelegate{DelegatorAddress: u.String(), ValidatorAddress: sdk.ValAddress(v).String(), Amount: sdk.NewInt64Coin("acanto", 1)}
	case urlOthers[2]:
		return &govv1.MsgVote{ProposalId: 1, Voter: u.String(), Option: govv1.OptionYes}
	case urlOthers[3]:
		return &erc20types.MsgConvertCoin{Coin: sdk.NewInt64Coin("acanto", 1), Receiver: common.BytesToAddress(v).Hex(), Sender: u.String()}
	default:
		return &banktypes.MsgSend{FromAddress: u.String(), ToAddress: v.String(), Amount: one}
	}
}

func (s *aSuite) build(n *aNode, signer int) sdk.Msg {
	u := s.addrs[signer]
	switch n.kind {
	case "exec":
		var inner []sdk.Msg
		for _, k := range n.kids {
			inner = append(inner, s.build(k, signer))
		}
		m := authz.NewMsgExec(u, inner)
		return &m
	case "grant":
		exp := time.Unix(1_900_000_000, 0)
		var a authz.Authorization = authz.NewGenericAuthorization(n.url)
		if n.url == urlSend && s.r.Intn(2) == 0 {
			a = banktypes.NewSendAuthorization(sdk.NewCoins(sdk.NewInt64Coin("acanto", 5)), nil)
		}
		m, err := authz.NewMsgGrant(u, s.addrs[(signer+1)%len(s.addrs)], a, &exp)
		if err != nil {
			panic(err)
		}
		return m
	default:
		return s.leafMsg(n.url, signer)
	}
}

// ---------- generating trees ----------

func (s *aSuite) cleanLeaf() *aNode {
	return &aNode{kind: "leaf", url: urlOthers[s.r.Intn(len(urlOthers))]}
}

func (s *aSuite) disabledURL() string {
	if s.r.Intn(4) == 0 {
		return urlEth
	}
	return urlVest[s.r.Intn(3)]
}

func (s *aSuite) badNode() *aNode {
	switch s.r.Intn(3) {
	case 0:
		return &aNode{kind: "grant", url: s.disabledURL()}
	default:
		return &aNode{kind: "leaf", url: s.disabledURL()}
	}
}

func (s *aSuite) cleanNode() *aNode {
	switch s.r.Intn(6) {
	case 0:
		u := urlOthers[s.r.Intn(len(urlOthers))]
		if s.r.Intn(3) == 0 {
			u = urlGrantX[s.r.Intn(len(urlGrantX))]
		}
		return &aNode{kind: "grant", url: u}
	default:
		return s.cleanLeaf()
	}
}

// a chain of `depth` MsgExec wrappers; at every level up to `width` extra siblings (clean leaves, clean grants, and with
// probability `sib` another shallow MsgExec); `bad` (if not nil) is placed at level `badAt` (0 = top level) at a random position.
func (s *aSuite) tree(depth, width int, sibExec int, bad *aNode, badAt int) []*aNode {
	var level func(d int) []*aNode
	level = func(d int) []*aNode {
		var out []*aNode
		n := s.r.Intn(width + 1)
		for i := 0; i < n; i++ {
			if s.r.Intn(100) < sibExec {
				k := 1 + s.r.Intn(2)
				inner := []*aNode{s.cleanLeaf()}
				for j := 1; j < k; j++ {
					inner = []*aNode{{kind: "exec", kids: inner}}
				}
				out = append(out, &aNode{kind: "exec", kids: inner})
			} else {
				out = append(out, s.cleanNode())
			}
		}
		if d < depth {
			pos := s.r.Intn(len(out) + 1)
			e := &aNode{kind: "exec", kids: level(d + 1)}
			out = append(out[:pos], append([]*aNode{e}, out[pos:]...)...)
		} else if len(out) == 0 {
			out = append(out, s.cleanLeaf())
		}
		if bad != nil && d == badAt {
			pos := s.r.Intn(len(out) + 1)
			out = append(out[:pos], append([]*aNode{bad}, out[pos:]...)...)
		}
		return out
	}
	return level(0)
}

// ---------- signing ----------

func (s *aSuite) newBuilder(ext []string, msgs []sdk.Msg, gas uint64, fee sdk.Coins) (client.TxBuilder, authtx.ExtensionOptionsTxBuilder) {
	b := s.txc.NewTxBuilder()
	eb := b.(authtx.ExtensionOptionsTxBuilder)
	var opts []*codectypes.Any
	for _, e := range ext {
		var any *codectypes.Any
		var err error
		switch e {
		case urlExtEth:
			any, err = codectypes.NewAnyWithValue(&evmtypes.ExtensionOptionsEthereumTx{})
		case urlExtWeb3:
			any, err = codectypes.NewAnyWithValue(&ethermint.ExtensionOptionsWeb3Tx{FeePayer: s.addrs[0].String(), TypedDataChainID: 7700})
		case urlExtDyn:
			any, err = codectypes.NewAnyWithValue(&ethermint.ExtensionOptionDynamicFeeTx{MaxPriorityPrice: sdkmath.NewInt(1)})
		default:
			any = &codectypes.Any{TypeUrl: e, Value: []byte{1}}
		}
		if err != nil {
			panic(err)
		}
		opts = append(opts, any)
	}
	if len(opts) > 0 {
		eb.SetExtensionOptions(opts...)
	}
	if err := b.SetMsgs(msgs...); err != nil {
		panic(err)
	}
	b.SetGasLimit(gas)
	b.SetFeeAmount(fee)
	return b, eb
}

func (s *aSuite) signDirect(b client.TxBuilder, signer int) error {
	w := s.w
	priv := s.keys[signer]
	acc := w.App.AccountKeeper.GetAccount(w.Ctx, s.addrs[signer])
	mode := signing.SignMode_SIGN_MODE_DIRECT
	sig := signing.SignatureV2{PubKey: priv.PubKey(), Data: &signing.SingleSignatureData{SignMode: mode}, Sequence: acc.GetSequence()}
	if err := b.SetSignatures(sig); err != nil {
		return err
	}
	sd := authsigning.SignerData{ChainID: w.Ctx.ChainID(), AccountNumber: acc.GetAccountNumber(), Sequence: acc.GetSequence(), PubKey: priv.PubKey(), Address: s.addrs[signer].String()}
	sig, err := clienttx.SignWithPrivKey(w.Ctx, mode, sd, b, priv, s.txc, acc.GetSequence())
	if err != nil {
		return err
	}
	return b.SetSignatures(sig)
}

// legacy EIP-712 typed data signature carried in the Web3 extension option (first option)
func (s *aSuite) signEIP712(ext []string, msgs []sdk.Msg, gas uint64, fee sdk.Coins, signer int) (tx sdk.Tx, err error) {
	defer func() {
		if r := recover(); r != nil {
			err = fmt.Errorf("eip712: %v", r)
		}
	}()
	w := s.w
	priv := s.keys[signer]
	from := s.addrs[signer]
	acc := w.App.AccountKeeper.GetAccount(w.Ctx, from)
	stdFee := legacytx.NewStdFee(gas, fee) //nolint: staticcheck
	data := legacytx.StdSignBytes(w.Ctx.ChainID(), acc.GetAccountNumber(), acc.GetSequence(), 0, stdFee, msgs, "")
	registry := codectypes.NewInterfaceRegistry()
	ethermint.RegisterInterfaces(registry)
	cryptocodec.RegisterInterfaces(registry)
	cdc := sdkcodec.NewProtoCodec(registry)
	typed, err := eip712.LegacyWrapTxToTypedData(cdc, 7700, msgs[0], data, &eip712.FeeDelegationOptions{FeePayer: from})
	if err != nil {
		return nil, err
	}
	hash, _, err := apitypes.TypedDataAndHash(typed)
	if err != nil {
		return nil, err
	}
	sigBz, err := priv.Sign(hash)
	if err != nil {
		return nil, err
	}
	sigBz[crypto.RecoveryIDOffset] += 27
	b := s.txc.NewTxBuilder()
	eb := b.(authtx.ExtensionOptionsTxBuilder)
	var opts []*codectypes.Any
	for i, e := range ext {
		if i == 0 {
			any, err := codectypes.NewAnyWithValue(&ethermint.ExtensionOptionsWeb3Tx{FeePayer: from.String(), TypedDataChainID: 7700, FeePayerSig: sigBz})
			if err != nil {
				return nil, err
			}
			opts = append(opts, any)
		} else if e == urlExtEth {
			any, _ := codectypes.NewAnyWithValue(&evmtypes.ExtensionOptionsEthereumTx{})
			opts = append(opts, any)
		} else {
			opts = append(opts, &codectypes.Any{TypeUrl: e, Value: []byte{1}})
		}
	}
	eb.SetExtensionOptions(opts...)
	if err := b.SetMsgs(msgs...); err != nil {
		return nil, err
	}
	b.SetGasLimit(gas)
	b.SetFeeAmount(fee)
	sig := signing.SignatureV2{PubKey: priv.PubKey(), Data: &signing.SingleSignatureData{SignMode: signing.SignMode_SIGN_MODE_LEGACY_AMINO_JSON}, Sequence: acc.GetSequence()}
	if err := b.SetSignatures(sig); err != nil {
		return nil, err
	}
	return b.GetTx(), nil
}

// ---------- classification of the answer ----------

func anteClass(err error) string {
	if err == nil {
		return "ok"
	}
	msg := err.Error()
	switch {
	case sdkerrors.ErrUnknownExtensionOptions.Is(err):
		return "rej:unknown-ext"
	case sdkerrors.ErrInvalidType.Is(err) && strings.Contains(msg, "MsgEthereumTx needs to be contained within a tx with"):
		return "rej:eth-in-cosmos"
	case sdkerrors.ErrUnauthorized.Is(err) && strings.Contains(msg, "found disabled msg type"):
		return "rej:authz"
	case sdkerrors.ErrUnauthorized.Is(err) && strings.Contains(msg, "found more nested msgs than permitted"):
		return "rej:nesting"
	case sdkerrors.ErrUnknownRequest.Is(err) && strings.Contains(msg, "invalid message type"):
		return "rej:non-eth-in-eth"
	case sdkerrors.ErrInvalidRequest.Is(err) && strings.Contains(msg, "for eth tx length of ExtensionOptions should be 1"):
		return "rej:eth-shape"
	}
	return "later:" + errClass(err)
}

// ---------- one transaction ----------

func flatHasEth(ns []*aNode) bool {
	for _, n := range ns {
		if n.kind == "leaf" && n.url == urlEth {
			return true
		}
	}
	return false
}

func (s *aSuite) opTx(ext []string, nodes []*aNode, shape string) {
	s.t.seq++
	w := s.w
	signer := s.r.Intn(len(s.keys))
	s.nonce = 0
	var msgs []sdk.Msg
	for _, n := range nodes {
		msgs = append(msgs, s.build(n, signer))
	}
	fee := sdk.NewCoins(sdk.NewInt64Coin("acanto", 1000))
	gas := uint64(2_000_000)
	var tx sdk.Tx
	signed := "none"
	first := ""
	if len(ext) > 0 {
		first = ext[0]
	}
	allEth := len(nodes) > 0
	for _, n := range nodes {
		if !(n.kind == "leaf" && n.url == urlEth) {
			allEth = false
		}
	}
	switch {
	case first == urlExtEth:
		// the shape of an Ethereum transaction: no Cosmos signature, fee and gas as the Ethereum messages say
		feeAmt := sdkmath.ZeroInt()
		g := uint64(0)
		for _, m := range msgs {
			if em, ok := m.(*evmtypes.MsgEthereumTx); ok {
				td, err := evmtypes.UnpackTxData(em.Data)
				if err != nil {
					panic(err)
				}
				feeAmt = feeAmt.Add(sdkmath.NewIntFromBigInt(td.Fee()))
				g += em.GetGas()
			}
		}
		f := sdk.Coins{}
		if feeAmt.IsPositive() {
			f = sdk.NewCoins(sdk.NewCoin("acanto", feeAmt))
		}
		b, _ := s.newBuilder(ext, msgs, g, f)
		tx = b.GetTx()
		if allEth {
			signed = "eth"
		}
	case first == urlExtWeb3 && len(nodes) == 1 && nodes[0].kind == "leaf" && nodes[0].url == urlSend && s.r.Intn(4) != 0:
		t, err := s.signEIP712(ext, msgs, gas, fee, signer)
		if err == nil {
			tx, signed = t, "eip712"
		} else {
			s.stat["eip712-sign-failed"]++
			b, _ := s.newBuilder(ext, msgs, gas, fee)
			tx = b.GetTx()
		}
	default:
		b, _ := s.newBuilder(ext, msgs, gas, fee)
		if s.r.Intn(12) != 0 {
			if err := s.signDirect(b, signer); err == nil {
				signed = "direct"
			} else {
				s.stat["direct-sign-failed"]++
			}
		}
		tx = b.GetTx()
	}
	// the wire path: encode and decode with the application's own codec whenever the decoder knows every extension option
	// (an unregistered option type never gets past the decoder; it is handed to the ante handler directly instead)
	wire := "direct"
	if bz, e := s.txc.TxEncoder()(tx); e == nil {
		if t2, e := s.txc.TxDecoder()(bz); e == nil {
			tx, wire = t2, "wire"
		}
	}
	s.stat["path:"+wire]++
	cctx, _ := w.Ctx.CacheContext()
	mode := "deliver"
	if s.r.Intn(4) == 0 {
		cctx = cctx.WithIsCheckTx(true)
		mode = "check"
	}
	var err error
	func() {
		defer func() {
			if r := recover(); r != nil {
				err = fmt.Errorf("panic: %v", r)
			}
		}()
		_, err = w.App.AnteHandler()(cctx, tx, false)
	}()
	class := anteClass(err)
	var ns []string
	for _, n := range nodes {
		ns = append(ns, n.String())
	}
	s.t.Line(fmt.Sprintf("O %d tx ext=%s msgs=%s sign=%s shape=%s mode=%s path=%s => %s | ", s.t.seq, strings.Join(ext, ";"), strings.Join(ns, ","), signed, shape, mode, wire, class))
	key := class
	if strings.HasPrefix(class, "later:") {
		m := err.Error()
		if len(m) > 70 {
			m = m[:70]
		}
		s.stat["latermsg:"+m]++
	}
	s.stat["tx:"+key]++
}

func (s *aSuite) extPick() []string {
	r := s.r
	switch k := r.Intn(40); {
	case k < 12:
		return nil
	case k < 18:
		return []string{urlExtEth}
	case k < 26:
		return []string{urlExtWeb3}
	case k < 28:
		return []string{urlExtDyn}
	case k < 30:
		return []string{urlExtUnk}
	case k < 31:
		return []string{urlExtEth, urlExtWeb3}
	case k < 32:
		return []string{urlExtWeb3, urlExtEth}
	case k < 33:
		return []string{urlExtWeb3, urlExtUnk}
	case k < 34:
		return []string{urlExtUnk, urlExtEth}
	case k < 35:
		return []string{urlExtDyn, urlExtEth}
	case k < 36:
		return []string{urlExtDyn, urlExtWeb3}
	case k < 37:
		return []string{urlExtEth, urlExtEth}
	case k < 38:
		return []string{urlExtWeb3, urlExtWeb3}
	case k < 39:
		return []string{urlExtEth, urlExtDyn}
	default:
		return []string{urlExtUnk, urlExtWeb3}
	}
}

// extension options for a transaction whose interest lies in its authz tree: mostly the two Cosmos paths
func (s *aSuite) extForTree() []string {
	switch k := s.r.Intn(20); {
	case k < 9:
		return nil
	case k < 15:
		return []string{urlExtWeb3}
	case k < 16:
		return []string{urlExtWeb3, urlExtEth}
	default:
		return s.extPick()
	}
}

func (s *aSuite) opRandom() {
	r := s.r
	eth := &aNode{kind: "leaf", url: urlEth}
	switch k := r.Intn(40); {
	case k < 6:
		// Ethereum messages only: mostly under the Ethereum option, sometimes under every other kind
		ext := []string{urlExtEth}
		if r.Intn(3) == 0 {
			ext = s.extPick()
		}
		n := 1 + r.Intn(2)
		var ns []*aNode
		for i := 0; i < n; i++ {
			ns = append(ns, eth)
		}
		s.opTx(ext, ns, "eth-only")
	case k < 10:
		// mixed: an Ethereum message among Cosmos messages, at every position, under every option
		ns := []*aNode{s.cleanLeaf(), s.cleanLeaf()}
		pos := r.Intn(3)
		ns = append(ns[:pos], append([]*aNode{eth}, ns[pos:]...)...)
		if r.Intn(3) == 0 {
			ns = ns[:1+r.Intn(3)]
		}
		s.opTx(s.extPick(), ns, "mixed")
	case k < 16:
		// plain Cosmos messages (a single bank send most often: the EIP-712 signable shape)
		if r.Intn(2) == 0 {
			s.opTx(s.extPick(), []*aNode{{kind: "leaf", url: urlSend}}, "cosmos-send")
		} else {
			var ns []*aNode
			for i := 0; i < 1+r.Intn(3); i++ {
				ns = append(ns, s.cleanLeaf())
			}
			s.opTx(s.extPick(), ns, "cosmos")
		}
	case k < 18:
		// a vesting message at top level is not an authz matter
		s.opTx(s.extForTree(), []*aNode{{kind: "leaf", url: urlVest[r.Intn(3)]}, s.cleanLeaf()}, "vesting-top")
	case k < 28:
		// clean authz trees around the nesting limit
		d := r.Intn(9)
		s.opTx(s.extForTree(), s.tree(d, r.Intn(3), int(r.PickInt(0, 0, 30, 60)), nil, 0), fmt.Sprintf("clean-d%d", d))
	case k < 39:
		// a disabled message / grant at every level of trees of every depth
		d := r.Intn(9)
		at := r.Intn(d + 1)
		s.opTx(s.extForTree(), s.tree(d, r.Intn(3), int(r.PickInt(0, 0, 30)), s.badNode(), at), fmt.Sprintf("bad-d%d-at%d", d, at))
	default:
		s.opTx(s.extPick(), nil, "empty")
	}
}

func init() { suites["ante"] = runAnte }

func runAnte(seed uint64, nOps int, outPath string) map[string]int {
	s := &aSuite{r: seedRng("ante", seed), stat: map[string]int{}}
	s.t = NewTrace(outPath)
	defer s.t.Close()
	for i := 0; i < 3; i++ {
		k := detKey(seed, i)
		s.keys = append(s.keys, k)
		s.addrs = append(s.addrs, sdk.AccAddress(k.PubKey().Address()))
	}
	now := time.Unix(1_700_000_000, 0).UTC()
	s.w = NewEvmWorldAddrs(s.addrs, sdk.NewCoins(sdk.NewCoin("acanto", pow2(100)), sdk.NewCoin("stake", pow2(100))), now, 3)
	p := s.w.App.EvmKeeper.GetParams(s.w.Ctx)
	p.EvmDenom = "acanto"
	if err := s.w.App.EvmKeeper.SetParams(s.w.Ctx, p); err != nil {
		panic(err)
	}
	s.w.Ctx = s.w.Ctx.WithBlockGasMeter(storetypes.NewGasMeter(1_000_000_000))
	s.txc = s.w.App.TxConfig()
	s.t.Line(fmt.Sprintf("E ethopt=%s web3opt=%s", urlExtEth, urlExtWeb3))
	s.t.Line("S -")
	for i := 0; i < nOps; i++ {
		s.opRandom()
	}
	_ = authtypes.ModuleName
	return s.stat
}
