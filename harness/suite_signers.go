package main

// Suite "signers" (C07): the five Canto user messages — MsgSwapOrder, MsgAddLiquidity, MsgRemoveLiquidity,
// MsgConvertCoin, MsgConvertERC20 — each (a) handed to the application's codec for its required signers
// (app.AppCodec().GetMsgV1Signers: proto annotations + the custom functions registered in app.go) and (b) executed through
// app.MsgServiceRouter() under branch/recover/commit on the real keepers and the real EVM.  One line per message with the
// signer bytes and the delta of the WHOLE bank ledger plus the ERC-20 balances and total supplies of the registered tokens.

import (
	"fmt"
	"math/big"
	"sort"
	"strings"
	"time"

	sdkmath "cosmossdk.io/math"
	sdk "github.com/cosmos/cosmos-sdk/types"
	authtypes "github.com/cosmos/cosmos-sdk/x/auth/types"
	"github.com/ethereum/go-ethereum/common"

	"github.com/Canto-Network/Canto/v8/contracts"
	coinswapkeeper "github.com/Canto-Network/Canto/v8/x/coinswap/keeper"
	coinswaptypes "github.com/Canto-Network/Canto/v8/x/coinswap/types"
	erc20types "github.com/Canto-Network/Canto/v8/x/erc20/types"
)

type sgSuite struct {
	cs      *csSuite // generators, state rendering and parameter episodes of the coinswap suite
	w       *World
	r       *Rng
	t       *Trace
	stat    map[string]int
	tokens  []common.Address // contracts of the registered pairs
	pairs   []erc20types.TokenPair
	tracked []sdk.AccAddress // accounts whose token balances are observed
}

func tokDenom(c common.Address) string { return "tok." + strings.ToLower(c.Hex()) }

// ---------- ledger: bank + token balances ----------

func (s *sgSuite) tokBalance(ctx sdk.Context, c common.Address, a sdk.AccAddress) *big.Int {
	return s.w.App.Erc20Keeper.BalanceOf(ctx, contracts.ERC20MinterBurnerDecimalsContract.ABI, c, common.BytesToAddress(a))
}

func (s *sgSuite) snap() Snap {
	w := s.w
	sn := w.Snapshot()
	abi := contracts.ERC20MinterBurnerDecimalsContract.ABI
	for _, c := range s.tokens {
		for _, a := range s.tracked {
			if b := s.tokBalance(w.Ctx, c, a); b != nil && b.Sign() > 0 {
				sn.Bal[w.Alias(a)+":"+tokDenom(c)] = b.String()
			}
		}
		res, err := w.App.Erc20Keeper.CallEVM(w.Ctx, abi, erc20types.ModuleAddress, c, false, "totalSupply")
		if err == nil {
			if un, err := abi.Unpack("totalSupply", res.Ret); err == nil && len(un) > 0 {
				if v, ok := un[0].(*big.Int); ok && v.Sign() > 0 {
					sn.Sup[tokDenom(c)] = v.String()
				}
			}
		}
	}
	return sn
}

func (s *sgSuite) pairState() string {
	var ps []string
	for _, p := range s.w.App.Erc20Keeper.GetTokenPairs(s.w.Ctx) {
		owner := "module"
		if p.IsNativeERC20() {
			owner = "external"
		}
		ps = append(ps, fmt.Sprintf("%s:%s:%s", tokenSafe(p.Denom), tokDenom(p.GetERC20Contract()), owner))
	}
	sort.Strings(ps)
	return "pairs=" + strings.Join(ps, ",")
}

func (s *sgSuite) sync() {
	s.t.Line("S " + s.cs.modState() + " " + s.pairState() + " " + s.snap().Full())
}

// ---------- running one message ----------

func (s *sgSuite) signersOf(msg sdk.Msg) string {
	sigs, _, err := s.w.App.AppCodec().GetMsgV1Signers(msg)
	if err != nil {
		return "err"
	}
	var out []string
	for _, b := range sigs {
		out = append(out, s.w.Alias(sdk.AccAddress(b)))
	}
	return strings.Join(out, ",")
}

func (s *sgSuite) run(kind, args string, msg sdk.Msg) {
	s.t.seq++
	w := s.w
	sg := s.signersOf(msg)
	preMod, pre := s.cs.modState(), s.snap()
	h := w.App.MsgServiceRouter().Handler(msg)
	out := w.Deliver(func(ctx sdk.Context) error {
		_, err := h(ctx, msg)
		return err
	})
	post := s.snap()
	s.t.Line(fmt.Sprintf("O %d %s %s => %s sg=%s | %s %s", s.t.seq, kind, args, out.String(), sg, s.cs.modDelta(preMod), Delta(pre, post)))
	s.stat[kind+":"+out.String()]++
	if out.Class == "panic" {
		m := out.Err
		if len(m) > 50 {
			m = m[:50]
		}
		s.stat["panicmsg:"+kind+":"+m]++
	}
}

// ---------- coinswap messages: payer and recipient chosen independently, every spelling ----------

func (s *sgSuite) opSwap() {
	c, r := s.cs, s.r
	_, inStr, inTok := c.userPick()
	outStr, outTok := inStr, inTok
	if r.Intn(3) != 0 {
		outStr, outTok = c.addrPick() // independently chosen recipient: other users, module accounts, escrows, either spelling
	}
	tok := c.denom(92)
	inD, outD := c.std, tok
	if r.Intn(2) == 0 {
		inD, outD = tok, c.std
	}
	isBuy := r.Intn(2) == 0
	inAmt, outAmt := c.amount(), c.amount()
	p := s.w.App.CoinswapKeeper.GetParams(s.w.Ctx)
	if _, X, Y, _, ok := c.reserves(tok); ok && X.IsPositive() && Y.IsPositive() {
		inRes, outRes := X, Y
		if inD != c.std {
			inRes, outRes = Y, X
		}
		if isBuy {
			if outRes.GT(sdkmath.OneInt()) {
				outAmt = r.Big(250).Mod(outRes.SubRaw(1)).AddRaw(1)
				if outAmt.GT(sdkmath.NewInt(1000)) {
					outAmt = outAmt.QuoRaw(int64(1 + r.Intn(1000)))
				}
			}
			if outAmt.IsPositive() && outAmt.LT(outRes) {
				q := safeQuote(func() sdkmath.Int { return coinswapkeeper.GetOutputPrice(outAmt, inRes, outRes, p.Fee) })
				inAmt = c.aroundDir(q, 1)
				if !inAmt.IsPositive() {
					inAmt = q
				}
			}
		} else {
			inAmt = r.Big(250).Mod(inRes.MulRaw(2).AddRaw(1)).AddRaw(1)
			if inAmt.GT(sdkmath.NewInt(1000)) {
				inAmt = inAmt.QuoRaw(int64(1 + r.Intn(1000)))
			}
			q := safeQuote(func() sdkmath.Int { return coinswapkeeper.GetInputPrice(inAmt, inRes, outRes, p.Fee) })
			outAmt = c.aroundDir(q, -1)
			if !outAmt.IsPositive() {
				outAmt = sdkmath.OneInt()
			}
		}
	}
	dl := c.deadline()
	msg := &coinswaptypes.MsgSwapOrder{
		Input:    coinswaptypes.Input{Address: inStr, Coin: sdk.Coin{Denom: inD, Amount: inAmt}},
		Output:   coinswaptypes.Output{Address: outStr, Coin: sdk.Coin{Denom: outD, Amount: outAmt}},
		Deadline: dl, IsBuyOrder: isBuy,
	}
	b := 0
	if isBuy {
		b = 1
	}
	s.run("swap", fmt.Sprintf("in=%s ind=%s ina=%s out=%s outd=%s outa=%s dl=%d buy=%d", inTok, tokenSafe(inD), inAmt, outTok, tokenSafe(outD), outAmt, dl, b), msg)
}

func (s *sgSuite) opAdd() {
	c, r := s.cs, s.r
	_, senderStr, senderTok := c.userPick()
	tok := c.denom(90)
	exact := c.amount()
	maxTok := c.amount()
	minLiq := sdkmath.ZeroInt()
	if _, X, Y, L, ok := c.reserves(tok); ok && X.IsPositive() && L.IsPositive() {
		p := s.w.App.CoinswapKeeper.GetParams(s.w.Ctx)
		st := exact
		if room := p.MaxStandardCoinPerPool.Sub(X); room.IsPositive() && room.LT(st) {
			st = room
		}
		qDep := safeQuote(func() sdkmath.Int { return Y.Mul(st).Quo(X).AddRaw(1) })
		if r.Intn(5) != 0 {
			maxTok = c.aroundDir(qDep, 1)
			if !maxTok.IsPositive() {
				maxTok = qDep
			}
		}
	}
	dl := c.deadline()
	msg := &coinswaptypes.MsgAddLiquidity{MaxToken: sdk.Coin{Denom: tok, Amount: maxTok}, ExactStandardAmt: exact, MinLiquidity: minLiq, Deadline: dl, Sender: senderStr}
	s.run("add", fmt.Sprintf("sender=%s tok=%s max=%s exact=%s minliq=%s dl=%d", senderTok, tokenSafe(tok), maxTok, exact, minLiq, dl), msg)
}

func (s *sgSuite) opRemove() {
	c, r := s.cs, s.r
	sender, senderStr, senderTok := c.userPick()
	lpt := fmt.Sprintf("lpt-%d", 1+r.Intn(4))
	wd := c.amount()
	var held []sdk.Coin
	for _, co := range s.w.App.BankKeeper.GetAllBalances(s.w.Ctx, sender) {
		if strings.HasPrefix(co.Denom, "lpt-") {
			held = append(held, co)
		}
	}
	if len(held) > 0 && r.Intn(8) != 0 {
		co := held[r.Intn(len(held))]
		lpt = co.Denom
		switch r.Intn(4) {
		case 0:
			wd = co.Amount
		case 1:
			wd = co.Amount.AddRaw(1)
		default:
			if co.Amount.IsPositive() {
				wd = r.Big(250).Mod(co.Amount).AddRaw(1)
			}
		}
	}
	dl := c.deadline()
	msg := &coinswaptypes.MsgRemoveLiquidity{WithdrawLiquidity: sdk.Coin{Denom: lpt, Amount: wd}, MinToken: sdkmath.ZeroInt(), MinStandardAmt: sdkmath.ZeroInt(), Deadline: dl, Sender: senderStr}
	s.run("remove", fmt.Sprintf("sender=%s lpt=%s w=%s mintok=0 minstd=0 dl=%d", senderTok, tokenSafe(lpt), wd, dl), msg)
}

// ---------- conversions ----------

// hex spellings of an address: 0x+EIP-55, 0x+lower, 0X+upper, bare lower, bare upper, bare EIP-55; malformed
func (s *sgSuite) hexForms(a sdk.AccAddress, allowBad bool) (string, string) {
	h := common.BytesToAddress(a).Hex() // 0x + EIP-55
	r := s.r
	k := r.Intn(14)
	if !allowBad && k >= 12 {
		k = r.Intn(12)
	}
	al := s.w.Alias(a)
	junk := func(str string) string { return "X" + s.w.Alias(sdk.AccAddress(common.HexToAddress(str).Bytes())) }
	switch k {
	case 0, 1, 2, 3:
		return h, "H0" + al
	case 4, 5:
		return strings.ToLower(h), "H1" + al
	case 6:
		return "0X" + strings.ToUpper(h[2:]), "H2" + al
	case 7, 8:
		return strings.ToLower(h[2:]), "H3" + al
	case 9:
		return strings.ToUpper(h[2:]), "H4" + al
	case 10, 11:
		return h[2:], "H5" + al
	case 12:
		str := h[:len(h)-1]
		return str, junk(str)
	default:
		// ... among them account-address spellings of the payer: its bech32 form, and the bech32 form of a 32-byte address
		// (module-derived / interchain-account length) whose last 20 bytes are the payer's - a handler that learns to accept
		// bech32 senders must not derive the paying EVM account from the tail of a longer signer address
		long := sdk.AccAddress(append([]byte{0xa5, 0xa5, 0xa5, 0xa5, 0xa5, 0xa5, 0xa5, 0xa5, 0xa5, 0xa5, 0xa5, 0xa5}, a.Bytes()...)).String()
		str := r.PickStr("", "0x", "zz"+h[2:], a.String(), long, long)
		return str, junk(str)
	}
}

func (s *sgSuite) anyAddr() sdk.AccAddress {
	r := s.r
	switch r.Intn(10) {
	case 0:
		return authtypes.NewModuleAddress(erc20types.ModuleName)
	case 1:
		return authtypes.NewModuleAddress(r.PickStr("distribution", "fee_collector", "transfer", coinswaptypes.ModuleName))
	case 2:
		return s.tracked[len(s.tracked)-1] // an account that is not a user
	default:
		return s.w.Users[r.Intn(len(s.w.Users))]
	}
}

func (s *sgSuite) convAmount(bal sdkmath.Int) sdkmath.Int {
	r := s.r
	if bal.IsPositive() && r.Intn(8) != 0 {
		switch r.Intn(6) {
		case 0:
			return bal
		case 1:
			return bal.AddRaw(1)
		case 2:
			return sdkmath.OneInt()
		default:
			return r.Big(250).Mod(bal).AddRaw(1)
		}
	}
	switch r.Intn(4) {
	case 0:
		return sdkmath.ZeroInt()
	case 1:
		return sdkmath.NewInt(-1)
	default:
		return s.cs.amount()
	}
}

func (s *sgSuite) opConvertCoin() {
	r := s.r
	sender, senderStr, senderTok := s.cs.userPick()
	recv := sender
	if r.Intn(3) != 0 {
		recv = s.anyAddr()
	}
	recvStr, recvTok := s.hexForms(recv, true)
	denom := "acoinz"
	if r.Intn(12) != 0 {
		denom = s.pairs[r.Intn(len(s.pairs))].Denom
	}
	amt := s.convAmount(s.w.App.BankKeeper.GetBalance(s.w.Ctx, sender, denom).Amount)
	msg := &erc20types.MsgConvertCoin{Coin: sdk.Coin{Denom: denom, Amount: amt}, Receiver: recvStr, Sender: senderStr}
	s.run("ccoin", fmt.Sprintf("sender=%s recv=%s denom=%s amt=%s", senderTok, recvTok, tokenSafe(denom), amt), msg)
}

func (s *sgSuite) opConvertERC20() {
	r := s.r
	sender := s.w.Users[r.Intn(len(s.w.Users))]
	senderStr, senderTok := s.hexForms(sender, true)
	recv := sender
	if r.Intn(3) != 0 {
		recv = s.anyAddr()
	}
	form := 0
	switch r.Intn(12) {
	case 0, 1, 2:
		form = 1
	case 3:
		form = 2
	}
	recvStr, recvTok := s.w.AddrForms(recv, form)
	p := s.pairs[r.Intn(len(s.pairs))]
	c := p.GetERC20Contract()
	cStr := c.Hex()
	switch r.Intn(14) {
	case 0:
		cStr = strings.ToLower(cStr)
	case 1:
		cStr = cStr[2:]
	case 2:
		cStr = common.BytesToAddress([]byte{9, 9, 9}).Hex() // not registered
	}
	bal := sdkmath.ZeroInt()
	if b := s.tokBalance(s.w.Ctx, c, sender); b != nil {
		bal = sdkmath.NewIntFromBigInt(b)
	}
	amt := s.convAmount(bal)
	msg := &erc20types.MsgConvertERC20{ContractAddress: cStr, Amount: amt, Receiver: recvStr, Sender: senderStr}
	s.run("cerc20", fmt.Sprintf("sender=%s recv=%s contract=%s amt=%s", senderTok, recvTok, tokDenom(common.HexToAddress(cStr)), amt), msg)
}

func init() { suites["signers"] = runSigners }

func runSigners(seed uint64, nOps int, outPath string) map[string]int {
	s := &sgSuite{r: seedRng("signers", seed), stat: map[string]int{}}
	s.t = NewTrace(outPath)
	defer s.t.Close()
	done := 0
	world := 0
	for done < nOps {
		world++
		cs := &csSuite{r: s.r, stat: map[string]int{}, t: s.t}
		cs.scale = 1 + s.r.Intn(3)
		cs.now = time.Unix(1_700_000_000+int64(s.r.Intn(1000)), 0).UTC()
		fund := sdk.NewCoins(sdk.NewCoin("stake", pow2(200)), sdk.NewCoin("ausdc", pow2(200)), sdk.NewCoin("abtc", pow2(200)), sdk.NewCoin("ibc/ETH", pow2(200)),
			sdk.NewCoin("zjunk", pow10(30)), sdk.NewCoin("acoina", pow2(120)), sdk.NewCoin("acanto", pow2(100)))
		s.w = NewEvmWorld(5, fund, cs.now, byte(world))
		cs.w = s.w
		// module accounts that are no party to any message hold coins (collected fees, the community pool)
		for _, m := range []string{"fee_collector", "distribution"} {
			if m == "distribution" {
				// through the community pool, so that the distribution module's own accounting agrees with its balance
				if err := s.w.App.DistrKeeper.FundCommunityPool(s.w.Ctx, sdk.NewCoins(sdk.NewCoin("stake", pow2(150)), sdk.NewCoin("ausdc", pow2(150))), s.w.Users[0]); err != nil {
					panic(err)
				}
				continue
			}
			if err := s.w.App.BankKeeper.SendCoins(s.w.Ctx, s.w.Users[0], authtypes.NewModuleAddress(m),
				sdk.NewCoins(sdk.NewCoin("stake", pow2(150)), sdk.NewCoin("ausdc", pow2(150)), sdk.NewCoin("abtc", pow2(150)), sdk.NewCoin("ibc/ETH", pow2(150)), sdk.NewCoin("acanto", pow2(80)))); err != nil {
				panic(err)
			}
		}
		cs.std, _ = s.w.App.CoinswapKeeper.GetStandardDenom(s.w.Ctx)
		s.cs = cs
		w := s.w
		// a module-owned pair (registered coin) and an externally owned one (registered ERC-20 whose tokens the users hold)
		if _, err := w.App.Erc20Keeper.RegisterCoin(w.Ctx, coinMeta("acoina")); err != nil {
			panic(err)
		}
		ext, err := w.App.Erc20Keeper.DeployERC20Contract(w.Ctx, coinMeta("aexttoken"))
		if err != nil {
			panic(err)
		}
		abi := contracts.ERC20MinterBurnerDecimalsContract.ABI
		for _, u := range w.Users {
			if _, err := w.App.Erc20Keeper.CallEVM(w.Ctx, abi, erc20types.ModuleAddress, ext, true, "mint", common.BytesToAddress(u), pow2(90).BigInt()); err != nil {
				panic(err)
			}
		}
		if _, err := w.App.Erc20Keeper.RegisterERC20(w.Ctx, ext); err != nil {
			panic(err)
		}
		s.pairs = w.App.Erc20Keeper.GetTokenPairs(w.Ctx)
		s.tokens = nil
		for _, p := range s.pairs {
			s.tokens = append(s.tokens, p.GetERC20Contract())
		}
		stranger := sdk.AccAddress([]byte("stranger____________"))
		s.tracked = append(append([]sdk.AccAddress{}, w.Users...), authtypes.NewModuleAddress(erc20types.ModuleName), authtypes.NewModuleAddress(coinswaptypes.ModuleName),
			authtypes.NewModuleAddress("distribution"), authtypes.NewModuleAddress("fee_collector"), authtypes.NewModuleAddress("transfer"), stranger)
		s.t.Line(cs.envLine() + " emod=" + w.Alias(authtypes.NewModuleAddress(erc20types.ModuleName)))
		for ep := 0; ep < 3 && done < nOps; ep++ {
			cs.newParams()
			s.sync()
			if ep == 0 {
				cs.force = true
				for i := 0; i < 4 && done < nOps; i++ {
					s.opAdd()
					done++
				}
				cs.force = false
			}
			for i := 0; i < 120 && done < nOps; i++ {
				switch k := s.r.Intn(20); {
				case k < 6:
					s.opSwap()
				case k < 9:
					s.opAdd()
				case k < 11:
					s.opRemove()
				case k < 15:
					s.opConvertCoin()
				case k < 19:
					s.opConvertERC20()
				default:
					cs.stepTime()
					s.sync()
					continue
				}
				done++
			}
		}
	}
	return s.stat
}
