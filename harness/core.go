package main

// Correspondence harness: executes generated operation sequences on the real Canto application
// (linked from /repo) and writes one line per operation with what the implementation did.
// The Lean driver replays the same lines on the model.

import (
	"bufio"
	"crypto/sha256"
	"encoding/binary"
	"encoding/hex"
	"fmt"
	"os"
	"sort"
	"strings"
	"time"

	sdkmath "cosmossdk.io/math"
	tmproto "github.com/cometbft/cometbft/proto/tendermint/types"
	sdk "github.com/cosmos/cosmos-sdk/types"
	authtypes "github.com/cosmos/cosmos-sdk/x/auth/types"
	banktypes "github.com/cosmos/cosmos-sdk/x/bank/types"

	"github.com/Canto-Network/Canto/v8/app"
)

// ---------- PRNG: every random choice derives from one splitmix64 state ----------

type Rng struct{ s uint64 }

func (r *Rng) Next() uint64 {
	r.s += 0x9e3779b97f4a7c15
	z := r.s
	z = (z ^ (z >> 30)) * 0xbf58476d1ce4e5b9
	z = (z ^ (z >> 27)) * 0x94d049bb133111eb
	return z ^ (z >> 31)
}
func (r *Rng) Intn(n int) int {
	if n <= 0 {
		return 0
	}
	return int(r.Next() % uint64(n))
}
// SeedRng derives the PRNG state for (suite, seed) by hashing, so that different seeds give unrelated streams
// (seed*gamma + c would make consecutive seeds the same splitmix64 stream shifted by one draw).
func SeedRng(suite string, seed uint64) *Rng {
	h := sha256.Sum256([]byte(fmt.Sprintf("canto-verif/%s/%d", suite, seed)))
	return &Rng{s: binary.BigEndian.Uint64(h[:8])}
}

func (r *Rng) Chance(num, den int) bool { return r.Intn(den) < num }
func (r *Rng) PickInt(xs ...int64) int64 { return xs[r.Intn(len(xs))] }
func (r *Rng) PickStr(xs ...string) string { return xs[r.Intn(len(xs))] }

// Big returns a random non-negative integer below 2^bits.
func (r *Rng) Big(bits int) sdkmath.Int {
	v := sdkmath.ZeroInt()
	for i := 0; i < (bits+31)/32; i++ {
		v = v.MulRaw(1 << 32).AddRaw(int64(r.Next() & 0xffffffff))
	}
	two := sdkmath.NewInt(2)
	m := sdkmath.OneInt()
	for i := 0; i < bits; i++ {
		m = m.Mul(two)
	}
	return v.Mod(m)
}

// ---------- trace output ----------

type Trace struct {
	w   *bufio.Writer
	f   *os.File
	seq int
}

func NewTrace(path string) *Trace {
	f, err := os.Create(path)
	if err != nil {
		panic(err)
	}
	return &Trace{w: bufio.NewWriterSize(f, 1<<20), f: f}
}
func (t *Trace) Line(s string) { t.w.WriteString(s); t.w.WriteByte('\n') }
func (t *Trace) Close()        { t.w.Flush(); t.f.Close() }

// ---------- world: the real application ----------

type World struct {
	App   *app.Canto
	Ctx   sdk.Context
	alias map[string]string // address bytes -> alias
	Users []sdk.AccAddress
}

func userAddr(i int) sdk.AccAddress {
	b := make([]byte, 20)
	copy(b, []byte(fmt.Sprintf("user%d______________", i)))
	return sdk.AccAddress(b)
}

// NewWorld builds the real app with nUsers funded base accounts.
func NewWorld(nUsers int, fund sdk.Coins, t time.Time) *World {
	w := &World{alias: map[string]string{}}
	accs := []authtypes.GenesisAccount{}
	bals := []banktypes.Balance{}
	for i := 0; i < nUsers; i++ {
		a := userAddr(i)
		w.Users = append(w.Users, a)
		w.alias[string(a)] = fmt.Sprintf("u%d", i)
		accs = append(accs, &authtypes.BaseAccount{Address: a.String()})
		bals = append(bals, banktypes.Balance{Address: a.String(), Coins: fund})
	}
	w.App = app.SetupWithGenesisAccounts(accs, bals...)
	w.Ctx = w.App.BaseApp.NewContextLegacy(false, tmproto.Header{Height: 1, ChainID: "canto_7700-1", Time: t})
	for name := range w.App.ModuleAccountAddrs() {
		_ = name
	}
	for _, name := range ModuleNames() {
		w.alias[string(authtypes.NewModuleAddress(name))] = "m." + name
	}
	return w
}

// ModuleNames: the module accounts of maccPerms (sorted), discovered from the app at run time.
var moduleNamesCache []string

func ModuleNames() []string { return moduleNamesCache }

func (w *World) Alias(a sdk.AccAddress) string {
	if s, ok := w.alias[string(a)]; ok {
		return s
	}
	return "x" + hex.EncodeToString(a)
}
func (w *World) SetAlias(a sdk.AccAddress, s string) { w.alias[string(a)] = s }

// ---------- ledger snapshot (whole ledger, not only tracked accounts) ----------

type Snap struct {
	Bal   map[string]string // alias:denom -> amount
	Sup   map[string]string // denom -> amount
	Accts map[string]bool
}

func (w *World) Snapshot() Snap { return w.SnapshotCtx(w.Ctx) }

func (w *World) SnapshotCtx(ctx sdk.Context) Snap {
	s := Snap{Bal: map[string]string{}, Sup: map[string]string{}, Accts: map[string]bool{}}
	for _, b := range w.App.BankKeeper.GetAccountsBalances(ctx) {
		addr, err := sdk.AccAddressFromBech32(b.Address)
		if err != nil {
			panic(err)
		}
		for _, c := range b.Coins {
			s.Bal[w.Alias(addr)+":"+c.Denom] = c.Amount.String()
		}
	}
	w.App.BankKeeper.IterateTotalSupply(ctx, func(c sdk.Coin) bool {
		s.Sup[c.Denom] = c.Amount.String()
		return false
	})
	w.App.AccountKeeper.IterateAccounts(ctx, func(acc sdk.AccountI) bool {
		s.Accts[w.Alias(acc.GetAddress())] = true
		return false
	})
	return s
}

func sortedKeys(m map[string]string) []string {
	ks := make([]string, 0, len(m))
	for k := range m {
		ks = append(ks, k)
	}
	sort.Strings(ks)
	return ks
}

// Full renders the whole ledger: b=<a>:<d>:<n>,... s=<d>:<n>,... accts=<a>,...
func (s Snap) Full() string {
	var bs, ss, as []string
	for _, k := range sortedKeys(s.Bal) {
		bs = append(bs, k+":"+s.Bal[k])
	}
	for _, k := range sortedKeys(s.Sup) {
		ss = append(ss, k+":"+s.Sup[k])
	}
	for k := range s.Accts {
		as = append(as, k)
	}
	sort.Strings(as)
	return "b=" + strings.Join(bs, ",") + " s=" + strings.Join(ss, ",") + " accts=" + strings.Join(as, ",")
}

// Delta renders only what changed from pre to post (new values; 0 for removed entries).
func Delta(pre, post Snap) string {
	var bs, ss, as []string
	seen := map[string]bool{}
	for _, k := range sortedKeys(post.Bal) {
		seen[k] = true
		if pre.Bal[k] != post.Bal[k] {
			bs = append(bs, k+":"+post.Bal[k])
		}
	}
	for _, k := range sortedKeys(pre.Bal) {
		if !seen[k] {
			bs = append(bs, k+":0")
		}
	}
	seen = map[string]bool{}
	for _, k := range sortedKeys(post.Sup) {
		seen[k] = true
		if pre.Sup[k] != post.Sup[k] {
			ss = append(ss, k+":"+post.Sup[k])
		}
	}
	for _, k := range sortedKeys(pre.Sup) {
		if !seen[k] {
			ss = append(ss, k+":0")
		}
	}
	for k := range post.Accts {
		if !pre.Accts[k] {
			as = append(as, k)
		}
	}
	sort.Strings(as)
	return "b=" + strings.Join(bs, ",") + " s=" + strings.Join(ss, ",") + " accts=" + strings.Join(as, ",")
}

// ---------- running one message the way baseapp/gov do: branch, recover, commit on success ----------

type Outcome struct {
	OK    bool
	Class string // rejection class for statistics: codespace/code, or "panic"
	Err   string
}

func errClass(err error) string {
	type coder interface {
		Codespace() string
		ABCICode() uint32
	}
	for e := err; e != nil; {
		if c, ok := e.(coder); ok {
			return fmt.Sprintf("%s/%d", c.Codespace(), c.ABCICode())
		}
		u, ok := e.(interface{ Unwrap() error })
		if !ok {
			break
		}
		e = u.Unwrap()
	}
	return "err"
}

// Deliver runs f on a branch of w.Ctx; the branch is written back only if f returns nil.
func (w *World) Deliver(f func(ctx sdk.Context) error) (out Outcome) {
	cctx, write := w.Ctx.CacheContext()
	func() {
		defer func() {
			if r := recover(); r != nil {
				out = Outcome{OK: false, Class: "panic", Err: fmt.Sprint(r)}
			}
		}()
		if err := f(cctx); err != nil {
			out = Outcome{OK: false, Class: errClass(err), Err: err.Error()}
			return
		}
		out = Outcome{OK: true}
	}()
	if out.OK {
		write()
	}
	return out
}

func (o Outcome) String() string {
	if o.OK {
		return "ok"
	}
	return "rej:" + o.Class
}

// ---------- address strings in their bech32 forms ----------

// AddrTok renders an address string form for the trace: L<alias> lower-case bech32, U<alias> upper-case, X unparsable.
func (w *World) AddrForms(a sdk.AccAddress, form int) (msgString string, tok string) {
	switch form {
	case 1:
		return strings.ToUpper(a.String()), "U" + w.Alias(a)
	case 2:
		return "canto1notanaddress", "X"
	case 3:
		return "", "X"
	default:
		return a.String(), "L" + w.Alias(a)
	}
}

func tokenSafe(s string) string {
	if s == "" {
		return "%empty"
	}
	r := strings.NewReplacer(" ", "%20", ",", "%2c", ":", "%3a", "=", "%3d")
	return r.Replace(s)
}
