package main

// Surface E of the erc20 suites: ethermint's real EVM with the compiled ERC20MinterBurnerDecimals contract shipped in
// /repo/contracts.  Holder transactions go through the real EvmKeeper.EthereumTx message server (signed MsgEthereumTx),
// so the application's own erc20 post-transaction hook fires on real receipts.  The erc20 keeper used for the Cosmos
// messages is the real one rebuilt over a recording wrapper of the real EVM keeper, so that every answer the EVM gave
// the keeper goes on the trace line.

import (
	"context"
	"fmt"
	"math/big"
	"strings"
	"time"

	tmproto "github.com/cometbft/cometbft/proto/tendermint/types"
	"github.com/cometbft/cometbft/crypto/ed25519"
	cryptocodec "github.com/cosmos/cosmos-sdk/crypto/codec"
	sdk "github.com/cosmos/cosmos-sdk/types"
	authtypes "github.com/cosmos/cosmos-sdk/x/auth/types"
	banktypes "github.com/cosmos/cosmos-sdk/x/bank/types"
	stakingtypes "github.com/cosmos/cosmos-sdk/x/staking/types"
	"github.com/ethereum/go-ethereum/common"
	"github.com/ethereum/go-ethereum/core"
	ethtypes "github.com/ethereum/go-ethereum/core/types"
	"github.com/ethereum/go-ethereum/core/vm"
	"github.com/ethereum/go-ethereum/crypto"
	"github.com/evmos/ethermint/crypto/ethsecp256k1"
	"github.com/evmos/ethermint/tests"
	ethermint "github.com/evmos/ethermint/types"
	"github.com/evmos/ethermint/x/evm/statedb"
	evmtypes "github.com/evmos/ethermint/x/evm/types"

	"github.com/Canto-Network/Canto/v8/app"
	"github.com/Canto-Network/Canto/v8/contracts"
	erc20types "github.com/Canto-Network/Canto/v8/x/erc20/types"
)

// newEthWorld: the real app with n funded accounts that own secp256k1 keys (derived from the PRNG), one validator whose
// consensus address is the block proposer (the EVM needs a coinbase), chain id canto_7700-1.
func newEthWorld(r *Rng, n int, fund sdk.Coins, t time.Time) (*World, []*ethsecp256k1.PrivKey) {
	w := &World{alias: map[string]string{}}
	var keys []*ethsecp256k1.PrivKey
	accs := []authtypes.GenesisAccount{}
	bals := []banktypes.Balance{}
	for i := 0; i < n; i++ {
		kb := make([]byte, 32)
		for j := 0; j < 4; j++ {
			v := r.Next()
			for b := 0; b < 8; b++ {
				kb[j*8+b] = byte(v >> (8 * b))
			}
		}
		kb[0] |= 1
		priv := &ethsecp256k1.PrivKey{Key: kb}
		keys = append(keys, priv)
		a := sdk.AccAddress(priv.PubKey().Address().Bytes())
		w.Users = append(w.Users, a)
		w.alias[string(a)] = fmt.Sprintf("u%d", i)
		accs = append(accs, &ethermint.EthAccount{BaseAccount: authtypes.NewBaseAccount(a, nil, 0, 0), CodeHash: common.BytesToHash(crypto.Keccak256(nil)).String()})
		bals = append(bals, banktypes.Balance{Address: a.String(), Coins: fund})
	}
	w.App = app.SetupWithGenesisAccounts(accs, bals...)
	consPub := ed25519.GenPrivKeyFromSecret([]byte("verif-validator")).PubKey()
	consAddr := sdk.ConsAddress(consPub.Address())
	w.Ctx = w.App.BaseApp.NewContextLegacy(false, tmproto.Header{Height: 1, ChainID: "canto_7700-1", Time: t, ProposerAddress: consAddr})
	pk, err := cryptocodec.FromCmtPubKeyInterface(consPub)
	if err != nil {
		panic(err)
	}
	valAddr := sdk.ValAddress(w.Users[0])
	val, err := stakingtypes.NewValidator(valAddr.String(), pk, stakingtypes.Description{})
	if err != nil {
		panic(err)
	}
	if err := w.App.StakingKeeper.SetValidator(w.Ctx, val); err != nil {
		panic(err)
	}
	if err := w.App.StakingKeeper.Hooks().AfterValidatorCreated(w.Ctx, valAddr); err != nil {
		panic(err)
	}
	if err := w.App.StakingKeeper.SetValidatorByConsAddr(w.Ctx, val); err != nil {
		panic(err)
	}
	for _, name := range ModuleNames() {
		w.alias[string(authtypes.NewModuleAddress(name))] = "m." + name
	}
	return w, keys
}

// ---------- recording wrapper of the real EVM keeper ----------

type recordEVM struct {
	inner erc20types.EVMKeeper
	alias func(a sdk.AccAddress) string
	rec   []string
	off   bool
}

func (m *recordEVM) GetParams(ctx sdk.Context) evmtypes.Params          { return m.inner.GetParams(ctx) }
func (m *recordEVM) SetParams(ctx sdk.Context, p evmtypes.Params) error { return m.inner.SetParams(ctx, p) }
func (m *recordEVM) ChainID() *big.Int                                  { return m.inner.ChainID() }
func (m *recordEVM) GetNonce(ctx sdk.Context, a common.Address) uint64  { return m.inner.GetNonce(ctx, a) }
func (m *recordEVM) EthereumTx(c context.Context, msg *evmtypes.MsgEthereumTx) (*evmtypes.MsgEthereumTxResponse, error) {
	return m.inner.EthereumTx(c, msg)
}
func (m *recordEVM) add(s string) {
	if !m.off {
		m.rec = append(m.rec, s)
	}
}
func (m *recordEVM) GetAccountWithoutBalance(ctx sdk.Context, addr common.Address) *statedb.Account {
	acc := m.inner.GetAccountWithoutBalance(ctx, addr)
	if acc != nil && acc.IsContract() {
		m.add("code/ok/1/-")
	} else {
		m.add("code/ok/0/-")
	}
	return acc
}
func (m *recordEVM) EstimateGas(c context.Context, req *evmtypes.EthCallRequest) (*evmtypes.EstimateGasResponse, error) {
	return m.inner.EstimateGas(c, req)
}

var scriptKind = (&ScriptEVM{}).kindOf

func (m *recordEVM) ApplyMessage(ctx sdk.Context, msg core.Message, tracer vm.EVMLogger, commit bool) (*evmtypes.MsgEthereumTxResponse, error) {
	res, err := m.inner.ApplyMessage(ctx, msg, tracer, commit)
	kind := scriptKind(msg.To(), msg.Data())
	switch {
	case err != nil:
		m.add(kind + "/err/-/-")
	case res.VmError != "":
		m.add(kind + "/rev/-/-")
	default:
		ret, logs := "-", logsStr(res.Logs)
		switch kind {
		case "name", "sym", "dec":
			if len(res.Ret) > 0 && len(res.Ret)%32 == 0 {
				ret = "1"
			}
		case "create":
			logs = "-" // the constructor's RoleGranted events are of no concern to the keeper
		default:
			if len(res.Ret) == 32 {
				ret = new(big.Int).SetBytes(res.Ret).String()
			}
		}
		m.add(kind + "/ok/" + ret + "/" + logs)
	}
	return res, err
}

// ---------- the token side on the real EVM ----------

type realSide struct {
	s       *e20Suite
	rec     *recordEVM
	bad     map[common.Address]bool
	roles   map[common.Address][]string
	holders []common.Address
}

func newRealSide(s *e20Suite, rec *recordEVM) *realSide {
	t := &realSide{s: s, rec: rec, bad: map[common.Address]bool{}, roles: map[common.Address][]string{}}
	for _, u := range s.w.Users {
		t.holders = append(t.holders, common.BytesToAddress(u))
	}
	t.holders = append(t.holders, common.BytesToAddress(s.mod), common.Address{})
	for _, f := range s.fresh {
		t.holders = append(t.holders, common.BytesToAddress(f))
	}
	return t
}

func (t *realSide) Reset(d Dev) { t.rec.rec = nil }
func (t *realSide) Recording() string {
	if len(t.rec.rec) == 0 {
		return "-"
	}
	return strings.Join(t.rec.rec, ",")
}
func (t *realSide) Fired() bool { return false }

// read-only call on the real EVM (not recorded)
func (t *realSide) view(ctx sdk.Context, c common.Address, method string, args ...interface{}) []interface{} {
	t.rec.off = true
	defer func() { t.rec.off = false }()
	a := contracts.ERC20MinterBurnerDecimalsContract.ABI
	res, err := t.s.k.CallEVM(ctx, a, common.BytesToAddress(t.s.mod), c, false, method, args...)
	if err != nil {
		return nil
	}
	out, err := a.Unpack(method, res.Ret)
	if err != nil {
		return nil
	}
	return out
}
func (t *realSide) Bal(ctx sdk.Context, c, h common.Address) *big.Int {
	out := t.view(ctx, c, "balanceOf", h)
	if len(out) == 0 {
		return big.NewInt(0)
	}
	return out[0].(*big.Int)
}
func (t *realSide) HasCode(ctx sdk.Context, c common.Address) bool {
	acc := t.s.w.App.EvmKeeper.GetAccountWithoutBalance(ctx, c)
	return acc != nil && acc.IsContract()
}
func (t *realSide) HasBadMeta(ctx sdk.Context, c common.Address) bool { return t.bad[c] }

var minterRole = crypto.Keccak256Hash([]byte("MINTER_ROLE"))

// DumpTokens: balances of all tracked holders, total supply, code and the minter role, for every known contract address
func (t *realSide) DumpTokens(ctx sdk.Context) map[string]string {
	out := map[string]string{}
	var cs []common.Address
	cs = append(cs, t.s.tokens...)
	seq, _ := t.s.w.App.AccountKeeper.GetSequence(ctx, t.s.mod)
	for n := uint64(0); n < seq && int(n) < len(t.s.kaddr); n++ {
		cs = append(cs, t.s.kaddr[n])
	}
	al := func(a common.Address) string { return t.s.alias(a.Bytes()) }
	for _, c := range cs {
		if !t.HasCode(ctx, c) {
			continue
		}
		out["code:"+al(c)] = "1"
		if o := t.view(ctx, c, "totalSupply"); len(o) > 0 && o[0].(*big.Int).Sign() > 0 {
			out["ts:"+al(c)] = o[0].(*big.Int).String()
		}
		for _, h := range t.holders {
			if b := t.Bal(ctx, c, h); b.Sign() > 0 {
				out["tb:"+al(c)+":"+al(h)] = b.String()
			}
		}
		// roles never change in these worlds (nobody calls grantRole): looked up once per contract
		if _, ok := t.roles[c]; !ok {
			var rs []string
			for _, h := range t.holders {
				if o := t.view(ctx, c, "hasRole", [32]byte(minterRole), h); len(o) > 0 && o[0].(bool) {
					rs = append(rs, "minter:"+al(c)+":"+al(h))
				}
			}
			t.roles[c] = rs
		}
		for _, r := range t.roles[c] {
			out[r] = "1"
		}
	}
	return out
}

func (t *realSide) keyOf(a common.Address) *ethsecp256k1.PrivKey {
	for i, u := range t.s.w.Users {
		if common.BytesToAddress(u) == a {
			return t.s.keys[i]
		}
	}
	return nil
}

// ethTx: a signed MsgEthereumTx (gas price 0: no fee, no refund) through the real message server
func (t *realSide) ethTx(ctx sdk.Context, from common.Address, to *common.Address, data []byte) (*evmtypes.MsgEthereumTxResponse, error) {
	priv := t.keyOf(from)
	if priv == nil {
		return nil, fmt.Errorf("no key for %s", from)
	}
	k := t.s.w.App.EvmKeeper
	chainID := k.ChainID()
	nonce := k.GetNonce(ctx, from)
	tx := evmtypes.NewTx(chainID, nonce, to, nil, 25_000_000, big.NewInt(0), nil, nil, data, nil)
	tx.From = from.Hex()
	if err := tx.Sign(ethtypes.LatestSignerForChainID(chainID), tests.NewSigner(priv)); err != nil {
		return nil, err
	}
	res, err := k.EthereumTx(ctx, tx)
	if err != nil {
		return nil, err
	}
	if res.VmError != "" {
		return res, fmt.Errorf("vm error: %s", res.VmError)
	}
	return res, nil
}

func (t *realSide) HolderTx(ctx sdk.Context, c, holder common.Address, call string, to common.Address, amt *big.Int) error {
	a := contracts.ERC20MinterBurnerDecimalsContract.ABI
	var data []byte
	var err error
	switch call {
	case "xfer":
		data, err = a.Pack("transfer", to, amt)
	case "burn":
		data, err = a.Pack("burn", amt)
	case "approve":
		data, err = a.Pack("approve", to, amt)
	default:
		return fmt.Errorf("unknown call %s", call)
	}
	if err != nil {
		return err
	}
	_, err = t.ethTx(ctx, holder, &c, data)
	return err
}

func (t *realSide) Deploy(ctx sdk.Context, c, deployer common.Address, supply *big.Int, bad bool) error {
	k := t.s.w.App.EvmKeeper
	if crypto.CreateAddress(deployer, k.GetNonce(ctx, deployer)) != c {
		return fmt.Errorf("contract address collision") // this deployer's CREATE address has moved on: c is taken
	}
	a := contracts.ERC20MinterBurnerDecimalsContract.ABI
	sym := strings.ToUpper(t.s.alias(c.Bytes()))
	if bad {
		sym = ""
	}
	ctor, err := a.Pack("", "Token "+strings.ToUpper(t.s.alias(c.Bytes())), sym, uint8(18))
	if err != nil {
		return err
	}
	data := append(append([]byte{}, contracts.ERC20MinterBurnerDecimalsContract.Bin...), ctor...)
	if _, err := t.ethTx(ctx, deployer, nil, data); err != nil {
		return err
	}
	mint, err := a.Pack("mint", deployer, supply)
	if err != nil {
		return err
	}
	if _, err := t.ethTx(ctx, deployer, &c, mint); err != nil {
		return err
	}
	t.bad[c] = bad
	return nil
}
