package main

// Suite "onboarding" (C11): the real onboarding IBC middleware (IBCMiddleware.OnRecvPacket -> Keeper.OnRecvPacket) over
// the real coinswap keeper, the real ICS-20 module (or a crediting stub / a failing application) and the REAL erc20
// keeper rebuilt over the app's stores with a scripted EVM.  Every packet is executed the way ibc core's RecvPacket
// does it: on a branch of the context that is written back only for a successful acknowledgement, panics recovered.

import (
	"fmt"
	"math/big"
	"sort"
	"strings"
	"time"

	sdkmath "cosmossdk.io/math"
	"github.com/cosmos/cosmos-sdk/runtime"
	sdk "github.com/cosmos/cosmos-sdk/types"
	authtypes "github.com/cosmos/cosmos-sdk/x/auth/types"
	banktypes "github.com/cosmos/cosmos-sdk/x/bank/types"
	govtypes "github.com/cosmos/cosmos-sdk/x/gov/types"
	transfer "github.com/cosmos/ibc-go/v8/modules/apps/transfer"
	transfertypes "github.com/cosmos/ibc-go/v8/modules/apps/transfer/types"
	clienttypes "github.com/cosmos/ibc-go/v8/modules/core/02-client/types"
	channeltypes "github.com/cosmos/ibc-go/v8/modules/core/04-channel/types"
	"github.com/cosmos/ibc-go/v8/modules/core/exported"
	"github.com/ethereum/go-ethereum/common"

	coinswapkeeper "github.com/Canto-Network/Canto/v8/x/coinswap/keeper"
	coinswaptypes "github.com/Canto-Network/Canto/v8/x/coinswap/types"
	erc20keeper "github.com/Canto-Network/Canto/v8/x/erc20/keeper"
	erc20types "github.com/Canto-Network/Canto/v8/x/erc20/types"
	"github.com/Canto-Network/Canto/v8/x/onboarding"
	onboardingkeeper "github.com/Canto-Network/Canto/v8/x/onboarding/keeper"
	onboardingtypes "github.com/Canto-Network/Canto/v8/x/onboarding/types"
)

const obSrcChannel = "channel-7" // the counterparty's channel end

// a kind of coin that arrives
type obCoin struct {
	raw   string // denomination in the packet data
	dstCh string // our channel end
	local string // denomination on this chain
	home  bool   // returns home (un-escrowed) instead of being minted
}

type obSuite struct {
	w     *World
	r     *Rng
	t     *Trace
	stat  map[string]int
	cs    *csSuite
	evm   *obScriptEVM
	rec   *obRecorder
	under *obUnder
	mw    onboarding.IBCMiddleware
	ek    erc20keeper.Keeper
	csms  coinswaptypes.MsgServer
	obms  onboardingtypes.MsgServer // one per application instance, as app.go wires it
	std   string
	coins []obCoin
	fresh int
	nstub int
}

func obPacket(c obCoin, amt, sender, receiver string, seq uint64) channeltypes.Packet {
	data := transfertypes.NewFungibleTokenPacketData(c.raw, amt, sender, receiver, "")
	return channeltypes.NewPacket(transfertypes.ModuleCdc.MustMarshalJSON(&data), seq, "transfer", obSrcChannel, "transfer", c.dstCh,
		clienttypes.NewHeight(0, 1000), 0)
}

func (s *obSuite) mkCoins() {
	mk := func(raw, dst string) obCoin {
		c := obCoin{raw: raw, dstCh: dst}
		c.local, c.home = obLocalDenom(obPacket(c, "1", "", "", 1), raw)
		return c
	}
	s.coins = []obCoin{
		mk("uusdc", "channel-0"),
		mk("uatom", "channel-0"),
		mk("uusdc", "channel-1"),
		mk("transfer/channel-3/uosmo", "channel-0"),
		mk("transfer/"+obSrcChannel+"/ausdc", "channel-0"),
		mk("transfer/"+obSrcChannel+"/"+s.std, "channel-0"),
		mk("uusdc", "channel-9"),
	}
}

// ---------------------------------------------------------------- state rendering

func (s *obSuite) envLine() string {
	return s.cs.envLine() + " erc20mod=" + s.w.Alias(authtypes.NewModuleAddress(erc20types.ModuleName))
}

func (s *obSuite) contractAlias(c common.Address) string { return "c" + strings.ToLower(c.Hex()[2:10]) }

func (s *obSuite) obState() string {
	w := s.w
	p := w.App.OnboardingKeeper.GetParams(w.Ctx)
	en := 0
	if p.EnableOnboarding {
		en = 1
	}
	var chs []string
	for _, c := range p.WhitelistedChannels {
		chs = append(chs, tokenSafe(c))
	}
	var macc []string
	w.App.AccountKeeper.IterateAccounts(w.Ctx, func(acc sdk.AccountI) bool {
		if _, ok := acc.(sdk.ModuleAccountI); ok {
			macc = append(macc, w.Alias(acc.GetAddress()))
		}
		return false
	})
	sort.Strings(macc)
	var pairs []string
	for _, tp := range s.ek.GetTokenPairs(w.Ctx) {
		e := 0
		if tp.Enabled {
			e = 1
		}
		pairs = append(pairs, fmt.Sprintf("%s:%s:%d", tokenSafe(tp.Denom), s.contractAlias(tp.GetERC20Contract()), e))
	}
	sort.Strings(pairs)
	var toks []string
	for c, hs := range s.evm.tokAll(w.Ctx) {
		for _, h := range obSortedAddrs(hs) {
			toks = append(toks, fmt.Sprintf("%s:%s:%s", s.contractAlias(c), w.Alias(sdk.AccAddress(h.Bytes())), hs[h].String()))
		}
	}
	sort.Strings(toks)
	return fmt.Sprintf("ob.en=%d ob.thr=%s ob.ch=%s macc=%s pairs=%s tok=%s", en, p.AutoSwapThreshold, strings.Join(chs, ","),
		strings.Join(macc, ","), strings.Join(pairs, ","), strings.Join(toks, ","))
}

func (s *obSuite) sync() { s.t.Line("S " + s.cs.modState() + " " + s.obState() + " " + s.w.Snapshot().Full()) }

// obDelta: changed keys of the onboarding part; the token ledger as changed entries only (0 for removed ones)
func obDelta(pre, post string) string {
	if pre == post {
		return ""
	}
	pm := map[string]string{}
	for _, kv := range strings.Fields(pre) {
		i := strings.Index(kv, "=")
		pm[kv[:i]] = kv[i+1:]
	}
	var out []string
	for _, kv := range strings.Fields(post) {
		i := strings.Index(kv, "=")
		k, v := kv[:i], kv[i+1:]
		if pm[k] == v {
			continue
		}
		if k != "tok" {
			out = append(out, kv)
			continue
		}
		old := map[string]string{}
		for _, e := range strings.Split(pm[k], ",") {
			if j := strings.LastIndex(e, ":"); j > 0 {
				old[e[:j]] = e[j+1:]
			}
		}
		var ch []string
		seen := map[string]bool{}
		for _, e := range strings.Split(v, ",") {
			if j := strings.LastIndex(e, ":"); j > 0 {
				seen[e[:j]] = true
				if old[e[:j]] != e[j+1:] {
					ch = append(ch, e)
				}
			}
		}
		for k2 := range old {
			if !seen[k2] {
				ch = append(ch, k2+":0")
			}
		}
		sort.Strings(ch)
		out = append(out, "tokd="+strings.Join(ch, ","))
	}
	return strings.Join(out, " ")
}

// ---------------------------------------------------------------- world construction

func (s *obSuite) newWorld() {
	now := time.Unix(1_700_000_000+int64(s.r.Intn(1000)), 0)
	s.std = "stake"
	s.mkCoins()
	fund := sdk.NewCoins(sdk.NewCoin(s.std, pow10(45)))
	for _, c := range s.coins {
		if c.local != s.std {
			fund = fund.Add(sdk.NewCoin(c.local, pow10(45)))
		}
	}
	s.w = NewWorld(5, fund, now)
	w := s.w
	s.cs = &csSuite{w: w, r: s.r, t: s.t, stat: map[string]int{}}
	s.csms = coinswapkeeper.NewMsgServerImpl(w.App.CoinswapKeeper)
	s.obms = onboardingkeeper.NewMsgServerImpl(*w.App.OnboardingKeeper)
	std, _ := w.App.CoinswapKeeper.GetStandardDenom(w.Ctx)
	if std != s.std {
		panic("unexpected standard denom " + std)
	}
	// the real erc20 keeper over the app's stores, with the scripted EVM
	s.evm = &obScriptEVM{app: w.App, key: w.App.GetKey(erc20types.StoreKey)}
	s.ek = erc20keeper.NewKeeper(runtime.NewKVStoreService(w.App.GetKey(erc20types.StoreKey)), w.App.AppCodec(),
		w.App.GetSubspace(erc20types.ModuleName), w.App.AccountKeeper, w.App.BankKeeper, s.evm,
		authtypes.NewModuleAddress(govtypes.ModuleName).String())
	s.rec = &obRecorder{ek: s.ek, evm: s.evm, bk: w.App.BankKeeper}
	var _ onboardingtypes.Erc20Keeper = s.rec
	w.App.OnboardingKeeper.SetErc20Keeper(s.rec)
	s.under = &obUnder{IBCModule: transfer.NewIBCModule(w.App.TransferKeeper), w: w}
	s.mw = onboarding.NewIBCMiddleware(*w.App.OnboardingKeeper, s.under)
	// the channel escrow holds the coins that can return home
	esc := transfertypes.GetEscrowAddress("transfer", "channel-0")
	w.SetAlias(esc, "i.channel-0")
	for _, c := range s.coins {
		if c.home {
			coin := sdk.NewCoin(c.local, pow10(40))
			if err := w.App.BankKeeper.SendCoins(w.Ctx, w.Users[0], esc, sdk.NewCoins(coin)); err != nil {
				panic(err)
			}
			w.App.TransferKeeper.SetTotalEscrowForDenom(w.Ctx, coin)
		}
	}
	s.fresh = 0
}

func (s *obSuite) freshAddr() sdk.AccAddress {
	s.fresh++
	b := make([]byte, 20)
	copy(b, []byte(fmt.Sprintf("fresh%d_____________", s.fresh)))
	a := sdk.AccAddress(b)
	s.w.SetAlias(a, fmt.Sprintf("n%d", s.fresh))
	return a
}

func (s *obSuite) reserves(denom string) (X, Y sdkmath.Int, ok bool) {
	pool, found := s.w.App.CoinswapKeeper.GetPool(s.w.Ctx, coinswaptypes.GetPoolId(denom))
	if !found {
		return X, Y, false
	}
	esc, _ := sdk.AccAddressFromBech32(pool.EscrowAddress)
	return s.w.App.BankKeeper.GetBalance(s.w.Ctx, esc, s.std).Amount, s.w.App.BankKeeper.GetBalance(s.w.Ctx, esc, denom).Amount, true
}

// quote: voucher needed to buy `thr` standard coin on the pool of `denom`, if that is possible at all
func (s *obSuite) quote(denom string, thr sdkmath.Int) (sdkmath.Int, bool) {
	X, Y, ok := s.reserves(denom)
	if !ok || !X.IsPositive() || !Y.IsPositive() || !thr.IsPositive() || thr.GTE(X) {
		return sdkmath.Int{}, false
	}
	fee := s.w.App.CoinswapKeeper.GetParams(s.w.Ctx).Fee
	q := safeQuote(func() sdkmath.Int { return coinswapkeeper.GetOutputPrice(thr, Y, X, fee) })
	return q, true
}

func (s *obSuite) openParams() coinswaptypes.Params {
	p := coinswaptypes.DefaultParams()
	p.PoolCreationFee = sdk.NewCoin(s.std, sdkmath.ZeroInt())
	p.MaxStandardCoinPerPool = pow10(40)
	ms := sdk.Coins{}
	for _, c := range s.coins {
		if c.local != s.std {
			ms = ms.Add(sdk.NewCoin(c.local, pow2(200)))
		}
	}
	p.MaxSwapAmount = ms
	return p
}

// pools: absent / shallow (1..5) / small / deep, per arriving coin
func (s *obSuite) makePools() {
	r, w := s.r, s.w
	w.App.CoinswapKeeper.SetParams(w.Ctx, s.openParams())
	seen := map[string]bool{}
	for _, c := range s.coins {
		if c.local == s.std || seen[c.local] {
			continue
		}
		seen[c.local] = true
		var X, Y sdkmath.Int
		switch r.Intn(10) {
		case 0:
			continue
		case 1, 2:
			X, Y = sdkmath.NewInt(int64(1+r.Intn(5))), sdkmath.NewInt(int64(1+r.Intn(5)))
		case 3:
			X, Y = sdkmath.NewInt(int64(6+r.Intn(300))), sdkmath.NewInt(int64(6+r.Intn(300)))
		case 4:
			X, Y = pow10(6+r.Intn(6)).MulRaw(int64(1+r.Intn(9))), pow10(6+r.Intn(6)).MulRaw(int64(1+r.Intn(9)))
		default:
			X, Y = pow10(20+r.Intn(8)).MulRaw(int64(1+r.Intn(9))), pow10(18+r.Intn(10)).MulRaw(int64(1+r.Intn(9)))
		}
		msg := &coinswaptypes.MsgAddLiquidity{MaxToken: sdk.NewCoin(c.local, Y), ExactStandardAmt: X, MinLiquidity: sdkmath.ZeroInt(),
			Deadline: w.Ctx.BlockTime().Unix() + 100, Sender: w.Users[0].String()}
		if out := w.Deliver(func(ctx sdk.Context) error { _, err := s.csms.AddLiquidity(ctx, msg); return err }); !out.OK {
			panic("pool setup: " + out.Err)
		}
	}
	for i := 1; i <= 12; i++ {
		w.SetAlias(coinswaptypes.GetReservePoolAddr(fmt.Sprintf("lpt-%d", i)), fmt.Sprintf("e.lpt-%d", i))
	}
}

func (s *obSuite) registerPairs() {
	r, w := s.r, s.w
	s.evm.reset(0, obHonest)
	ep := s.ek.GetParams(w.Ctx)
	ep.EnableErc20 = true
	s.ek.SetParams(w.Ctx, ep)
	seen := map[string]bool{}
	for _, c := range s.coins {
		if seen[c.local] || s.ek.IsDenomRegistered(w.Ctx, c.local) {
			continue
		}
		seen[c.local] = true
		if r.Intn(7) == 0 {
			continue // unregistered in this episode
		}
		md, ok := w.App.BankKeeper.GetDenomMetaData(w.Ctx, c.local)
		if !ok {
			md = banktypes.Metadata{Base: c.local, Display: c.local, Name: c.local, Symbol: "V",
				DenomUnits: []*banktypes.DenomUnit{{Denom: c.local, Exponent: 0}}}
		}
		if _, err := s.ek.RegisterCoin(w.Ctx, md); err != nil {
			panic("register " + c.local + ": " + err.Error())
		}
	}
}

// episode parameters: coinswap (fee, per-swap maximum that sometimes bites), onboarding, erc20 switches
func (s *obSuite) newEpisode() {
	r, w := s.r, s.w
	// onboarding
	op := onboardingtypes.Params{EnableOnboarding: r.Intn(9) != 0}
	switch r.Intn(16) {
	case 0:
		op.WhitelistedChannels = []string{}
	case 1:
		op.WhitelistedChannels = []string{"channel-1"}
	case 2, 3, 4, 5, 6, 7:
		op.WhitelistedChannels = []string{"channel-0", "channel-1"}
	default:
		op.WhitelistedChannels = []string{"channel-0"}
	}
	thr := sdkmath.ZeroInt()
	switch r.Intn(16) {
	case 0:
		thr = sdkmath.ZeroInt()
	case 1, 2:
		thr = sdkmath.OneInt()
	case 3, 4:
		thr = onboardingtypes.DefaultAutoSwapThreshold
	case 5, 6:
		thr = sdkmath.NewInt(int64(2 + r.Intn(4)))
	case 7:
		thr = sdkmath.NewInt(int64(10 + r.Intn(100000)))
	default:
		// next to the standard-coin reserve of some pool: X-1, X, X+1, or a fraction of it
		c := s.coins[r.Intn(4)]
		if X, _, ok := s.reserves(c.local); ok && X.IsPositive() {
			switch r.Intn(8) {
			case 0:
				thr = X
			case 1:
				thr = X.AddRaw(1)
			case 2:
				thr = X.SubRaw(1)
			default:
				thr = X.QuoRaw(int64(2 + r.Intn(1000)))
			}
		} else {
			thr = sdkmath.NewInt(int64(1 + r.Intn(50)))
		}
	}
	if thr.IsZero() && r.Intn(3) != 0 {
		thr = sdkmath.OneInt()
	}
	op.AutoSwapThreshold = thr
	w.App.OnboardingKeeper.SetParams(w.Ctx, op)
	// coinswap
	p := s.openParams()
	switch r.Intn(5) {
	case 0:
		p.Fee = sdkmath.LegacyZeroDec()
	case 1:
		p.Fee = sdkmath.LegacyNewDecWithPrec(5, 1)
	case 2:
		p.Fee = sdkmath.LegacyNewDecFromBigIntWithPrec(r.Big(59).Mod(pow10(18)).BigInt(), 18)
	default:
		p.Fee = sdkmath.LegacyNewDecWithPrec(3, 3)
	}
	w.App.CoinswapKeeper.SetParams(w.Ctx, p)
	ms := sdk.Coins{}
	seen := map[string]bool{}
	for _, c := range s.coins {
		if c.local == s.std || seen[c.local] {
			continue
		}
		seen[c.local] = true
		lim := pow2(200)
		switch r.Intn(10) {
		case 0:
			continue // not whitelisted
		case 1, 2, 3:
			// a limit next to what the automatic swap needs
			if q, ok := s.quote(c.local, thr); ok {
				lim = q.AddRaw(int64(r.Intn(3) - 1))
				if !lim.IsPositive() {
					lim = sdkmath.OneInt()
				}
			} else {
				lim = sdkmath.NewInt(int64(1 + r.Intn(10)))
			}
		}
		ms = ms.Add(sdk.NewCoin(c.local, lim))
	}
	p.MaxSwapAmount = ms
	if err := p.Validate(); err != nil {
		panic(err)
	}
	w.App.CoinswapKeeper.SetParams(w.Ctx, p)
	// erc20: (re-)register pairs deleted meanwhile, toggle some pairs, sometimes the global switch
	s.registerPairs()
	for _, tp := range s.ek.GetTokenPairs(w.Ctx) {
		if want := r.Intn(7) != 0; want != tp.Enabled {
			if _, err := s.ek.ToggleConversion(w.Ctx, tp.Denom); err != nil {
				panic(err)
			}
		}
	}
	ep := s.ek.GetParams(w.Ctx)
	ep.EnableErc20 = r.Intn(12) != 0
	s.ek.SetParams(w.Ctx, ep)
}

// ---------------------------------------------------------------- operations

func (s *obSuite) emit(kind, args, outcome, resp, preCs, preOb string, pre Snap) {
	s.t.seq++
	post := s.w.Snapshot()
	s.t.Line(fmt.Sprintf("O %d %s %s => %s %s | %s %s %s", s.t.seq, kind, args, outcome, resp, s.cs.modDelta(preCs), obDelta(preOb, s.obState()), Delta(pre, post)))
}

// opDiscardedParams: a governance proposal whose first message updates the onboarding parameters (through the real
// MsgUpdateParams handler, one message server per application instance) and whose later message fails: the handler
// succeeds on a branch that is then discarded. Nothing may remain, in the store or in process memory: the state observed
// through the keeper afterwards is the state before, and the packets that follow are handled under the committed parameters.
func (s *obSuite) opDiscardedParams() {
	r, w := s.r, s.w
	if s.obms == nil {
		s.obms = onboardingkeeper.NewMsgServerImpl(*w.App.OnboardingKeeper)
	}
	cur := w.App.OnboardingKeeper.GetParams(w.Ctx)
	np := onboardingtypes.Params{EnableOnboarding: cur.EnableOnboarding, AutoSwapThreshold: cur.AutoSwapThreshold,
		WhitelistedChannels: append([]string{}, cur.WhitelistedChannels...)}
	switch r.Intn(4) {
	case 0:
		np.EnableOnboarding = !cur.EnableOnboarding
	case 1: // the other channel set
		has := map[string]bool{}
		for _, c := range cur.WhitelistedChannels {
			has[c] = true
		}
		np.WhitelistedChannels = nil
		for _, c := range []string{"channel-0", "channel-1", "channel-7"} {
			if !has[c] {
				np.WhitelistedChannels = append(np.WhitelistedChannels, c)
			}
		}
	case 2:
		np.AutoSwapThreshold = cur.AutoSwapThreshold.MulRaw(3).AddRaw(7)
	default:
		np.EnableOnboarding = true
		np.WhitelistedChannels = []string{"channel-0", "channel-1", "channel-7"}
		np.AutoSwapThreshold = sdkmath.NewInt(int64(1 + r.Intn(1000)))
	}
	auth := authtypes.NewModuleAddress(govtypes.ModuleName).String()
	preCs, preOb, pre := s.cs.modState(), s.obState(), w.Snapshot()
	hok := false
	out := w.Deliver(func(ctx sdk.Context) error {
		_, err := s.obms.UpdateParams(ctx, &onboardingtypes.MsgUpdateParams{Authority: auth, Params: np})
		if err == nil {
			hok = true
			return fmt.Errorf("a later message of the transaction failed")
		}
		return err
	})
	if hok {
		out.Class = "later"
	}
	en := 0
	if np.EnableOnboarding {
		en = 1
	}
	var chs []string
	for _, c := range np.WhitelistedChannels {
		chs = append(chs, tokenSafe(c))
	}
	s.stat["discarded-params"]++
	s.emit("obparams", fmt.Sprintf("en=%d thr=%s ch=%s later=1", en, np.AutoSwapThreshold, strings.Join(chs, ",")), out.String(), "", preCs, preOb, pre)
}

// opSend: a plain bank transfer (changes the recipient's standard-coin balance between packets, donates to a pool, …)
func (s *obSuite) opSend(src, dst sdk.AccAddress, d string, amt sdkmath.Int) {
	preCs, preOb, pre := s.cs.modState(), s.obState(), s.w.Snapshot()
	out := s.w.Deliver(func(ctx sdk.Context) error {
		return s.w.App.BankKeeper.SendCoins(ctx, src, dst, sdk.NewCoins(sdk.NewCoin(d, amt)))
	})
	s.emit("send", fmt.Sprintf("src=%s dst=%s d=%s amt=%s", s.w.Alias(src), s.w.Alias(dst), tokenSafe(d), amt), out.String(), "", preCs, preOb, pre)
	s.stat["send:"+out.String()]++
}

// setBalance moves standard coin between the account and the rich user so that the account holds `target`
func (s *obSuite) setStdBalance(a sdk.AccAddress, target sdkmath.Int) {
	cur := s.w.App.BankKeeper.GetBalance(s.w.Ctx, a, s.std).Amount
	rich := s.w.Users[0]
	switch {
	case cur.GT(target):
		s.opSend(a, rich, s.std, cur.Sub(target))
	case cur.LT(target):
		s.opSend(rich, a, s.std, target.Sub(cur))
	}
}

func (s *obSuite) pickAmount(c obCoin, thr sdkmath.Int) sdkmath.Int {
	r := s.r
	if q, ok := s.quote(c.local, thr); ok && r.Intn(10) < 6 {
		switch r.Intn(8) {
		case 0:
			if q.GT(sdkmath.OneInt()) {
				return q.SubRaw(1)
			}
			return q
		case 1, 2:
			return q
		case 3:
			return q.AddRaw(1)
		case 4:
			return q.MulRaw(2)
		default:
			return q.Add(pow10(r.Intn(25))).AddRaw(int64(r.Intn(5)))
		}
	}
	switch r.Intn(10) {
	case 0, 1:
		return sdkmath.NewInt(int64(1 + r.Intn(10)))
	case 2:
		return sdkmath.NewInt(int64(1 + r.Intn(100000)))
	case 3:
		return pow10(24)
	case 4:
		return pow10(24).SubRaw(int64(1 + r.Intn(3)))
	case 5:
		if r.Intn(6) == 0 {
			return pow2(255) // close to the 256-bit limit: a second one overflows a balance (panic path)
		}
		return pow10(18).MulRaw(int64(1 + r.Intn(1000)))
	default:
		return pow10(r.Intn(25)).MulRaw(int64(1 + r.Intn(9))).AddRaw(int64(r.Intn(3)))
	}
}

func (s *obSuite) opRecv() {
	r, w := s.r, s.w
	params := w.App.OnboardingKeeper.GetParams(w.Ctx)
	thr := params.AutoSwapThreshold
	// which coin arrives: mostly on the first channels
	var c obCoin
	switch k := r.Intn(40); {
	case k < 14:
		c = s.coins[0]
	case k < 23:
		c = s.coins[1]
	case k < 28:
		c = s.coins[2]
	case k < 33:
		c = s.coins[3]
	case k < 37:
		c = s.coins[4]
	case k < 39:
		c = s.coins[5]
	default:
		c = s.coins[6]
	}
	if r.Intn(2) == 0 {
		// prefer a coin for which the automatic swap is feasible at all
		var feas []obCoin
		for _, x := range s.coins[:5] {
			if _, ok := s.quote(x.local, thr); ok {
				feas = append(feas, x)
			}
		}
		if len(feas) > 0 {
			c = feas[r.Intn(len(feas))]
		}
	}
	// receiver
	var rcpt sdk.AccAddress
	rcvStr, rcvTok := "", ""
	under := obUnderReal
	kind := r.Intn(40)
	switch {
	case kind < 24:
		rcpt = w.Users[1+r.Intn(4)]
	case kind < 30:
		rcpt = s.freshAddr()
	case kind < 32:
		names := ModuleNames()
		rcpt = authtypes.NewModuleAddress(names[r.Intn(len(names))])
		if r.Intn(3) != 0 {
			under = obUnderStub
		}
	case kind < 33:
		rcpt = coinswaptypes.GetReservePoolAddr(fmt.Sprintf("lpt-%d", 1+r.Intn(4)))
	default:
		rcpt = w.Users[1+r.Intn(4)]
	}
	rcvStr, rcvTok = rcpt.String(), "L"+w.Alias(rcpt)
	switch {
	case kind == 33 || kind == 34:
		rcvStr, rcvTok = strings.ToUpper(rcpt.String()), "U"+w.Alias(rcpt) // the SDK parses it, canto's parser does not
	case kind == 35 || kind == 36:
		rcvStr = sdk.MustBech32ifyAddressBytes("cosmos", rcpt) // foreign prefix: canto's parser converts it, the SDK refuses it
		if r.Intn(2) == 0 {
			under = obUnderStub
		}
	case kind == 37:
		rcvStr, rcvTok = "canto1notanaddress", "X"
	case kind == 38:
		rcvStr, rcvTok = "", "X"
	}
	// sender: an address of the counterparty chain
	sndStr, sndTok := sdk.MustBech32ifyAddressBytes("cosmos", userAddr(9)), "L"
	switch r.Intn(40) {
	case 0:
		sndStr, sndTok = "", "X"
	case 1:
		sndStr, sndTok = "0x7cB61D4117AE31a12E393a1Cfa3BaC666481D02E", "X"
	case 2:
		sndStr, sndTok = strings.ToUpper(sndStr), "U"
	case 3:
		sndStr = w.Users[2].String()
	}
	switch r.Intn(25) {
	case 0:
		under = obUnderFail
	case 1:
		under = obUnderStub
	}
	// recipient's standard-coin balance against the threshold: the swap branch needs balance < threshold
	if thr.IsPositive() && rcvTok != "X" && r.Intn(10) < 7 && !w.App.BankKeeper.BlockedAddr(rcpt) {
		var target sdkmath.Int
		switch r.Intn(8) {
		case 0, 1, 2:
			target = sdkmath.ZeroInt()
		case 3:
			target = thr.SubRaw(1)
		case 4:
			target = thr
		case 5:
			target = thr.AddRaw(1)
		default:
			target = thr.QuoRaw(2)
		}
		s.setStdBalance(rcpt, target)
	}
	amt := s.pickAmount(c, thr)
	// the EVM script of this packet
	failAt, mode := 0, obHonest
	switch r.Intn(10) {
	case 0, 1:
		failAt = 1 + r.Intn(5)
	case 2, 3:
		mode = 1 + r.Intn(obNumModes-1)
	}
	s.evm.reset(failAt, mode)
	s.rec.rec = obConvRec{}
	s.under.mode, s.under.lastAck = under, nil
	s.nstub++
	s.under.stubAck = []byte(fmt.Sprintf("stub-%d", s.nstub))
	// the amount is a string in the packet; ICS-20 (sdkmath.NewIntFromString, base 0) accepts more spellings than plain
	// decimal: every component must read the same number out of it
	amtStr := amt.String()
	if r.Intn(6) == 0 {
		b := amt.BigInt()
		switch r.Intn(8) {
		case 0:
			amtStr = "0x" + b.Text(16)
		case 1:
			amtStr = "0X" + strings.ToUpper(b.Text(16))
		case 2:
			amtStr = "0" + b.Text(8) // a leading zero means octal
		case 3:
			amtStr = "0o" + b.Text(8)
		case 4:
			amtStr = "0b" + b.Text(2)
		case 5:
			if len(amtStr) > 1 {
				amtStr = amtStr[:1] + "_" + amtStr[1:]
			}
		case 6:
			amtStr = "+" + amtStr
		default:
			if len(amtStr) > 3 {
				amtStr = amtStr[:len(amtStr)-3] + "_" + amtStr[len(amtStr)-3:]
			}
		}
		if v, ok := sdkmath.NewIntFromString(amtStr); !ok || !v.Equal(amt) {
			panic("generator: amount spelling " + amtStr + " does not read as " + amt.String())
		}
		s.stat["gen:amount-spelling"]++
	}
	packet := obPacket(c, amtStr, sndStr, rcvStr, uint64(s.nstub))

	preCs, preOb, pre := s.cs.modState(), s.obState(), w.Snapshot()
	cctx, write := w.Ctx.CacheContext()
	cctx = cctx.WithEventManager(sdk.NewEventManager())
	var ack exported.Acknowledgement
	panicked := ""
	func() {
		defer func() {
			if rec := recover(); rec != nil {
				panicked = fmt.Sprint(rec)
			}
		}()
		ack = s.mw.OnRecvPacket(cctx, packet, w.Users[0])
	}()
	outcome := "ok"
	if panicked != "" {
		outcome = "rej:panic"
		m := panicked
		if len(m) > 40 {
			m = m[:40]
		}
		s.stat["panicmsg:recv:"+m]++
	} else if ack == nil || ack.Success() {
		write()
	}
	underOk := 1
	if s.under.lastAck != nil && !s.under.lastAck.Success() {
		underOk = 0
	}
	credit := "mint:" + w.Alias(authtypes.NewModuleAddress(transfertypes.ModuleName))
	if c.home {
		credit = "unescrow:" + w.Alias(transfertypes.GetEscrowAddress("transfer", c.dstCh))
	}
	conv := "none"
	if s.rec.rec.Called {
		conv = s.rec.rec.Outcome
		if conv == "panic" {
			conv = "ok"
		}
	}
	resp := ""
	if panicked == "" {
		ev := "none"
		for _, e := range cctx.EventManager().Events() {
			if e.Type == onboardingtypes.EventTypeOnboarding {
				sw, cv := "?", "?"
				for _, a := range e.Attributes {
					switch a.Key {
					case onboardingtypes.AttributeKeySwapAmount:
						sw = a.Value
					case onboardingtypes.AttributeKeyConvertAmount:
						cv = a.Value
					}
				}
				ev = sw + ":" + cv
			}
		}
		cvc, cva := 0, "0"
		if s.rec.rec.Called {
			cvc, cva = 1, s.rec.rec.Amount.String()
		}
		resp = fmt.Sprintf("ack=%s cvc=%d cva=%s ev=%s", obAckClass(s.under.lastAck, ack), cvc, cva, ev)
	}
	args := fmt.Sprintf("ch=%s snd=%s rcv=%s raw=%s d=%s amt=%s credit=%s under=%d conv=%s script=%s:%d", tokenSafe(c.dstCh), sndTok, rcvTok,
		tokenSafe(c.raw), tokenSafe(c.local), amt, credit, underOk, conv, obModeNames[mode], failAt)
	s.emit("recv", args, outcome, resp, preCs, preOb, pre)
	underName := []string{"real", "stub", "fail"}[under]
	s.stat[fmt.Sprintf("recv:%s:under=%s/%d:conv=%s", outcome, underName, underOk, conv)]++
	if s.rec.rec.Called {
		s.stat[fmt.Sprintf("script:%s:failAt=%d:%s", obModeNames[mode], failAt, conv)]++
	}
}

// a trade on a pool by the rich user, so that reserves move between packets
func (s *obSuite) opTrade() {
	r, w := s.r, s.w
	c := s.coins[r.Intn(5)]
	X, Y, ok := s.reserves(c.local)
	if !ok || !X.IsPositive() || !Y.IsPositive() {
		s.opSend(w.Users[0], coinswaptypes.GetReservePoolAddr(fmt.Sprintf("lpt-%d", 1+r.Intn(3))), s.std, sdkmath.NewInt(int64(1+r.Intn(3))))
		return
	}
	in := Y.QuoRaw(int64(2 + r.Intn(20))).AddRaw(1)
	msg := &coinswaptypes.MsgSwapOrder{
		Input:      coinswaptypes.Input{Address: w.Users[0].String(), Coin: sdk.NewCoin(c.local, in)},
		Output:     coinswaptypes.Output{Address: w.Users[0].String(), Coin: sdk.NewCoin(s.std, sdkmath.OneInt())},
		Deadline:   w.Ctx.BlockTime().Unix() + 100,
		IsBuyOrder: false,
	}
	preCs, preOb, pre := s.cs.modState(), s.obState(), w.Snapshot()
	out := w.Deliver(func(ctx sdk.Context) error { _, err := s.csms.SwapCoin(ctx, msg); return err })
	u := "L" + w.Alias(w.Users[0])
	s.emit("swap", fmt.Sprintf("in=%s ind=%s ina=%s out=%s outd=%s outa=1 dl=%d buy=0", u, tokenSafe(c.local), in, u, tokenSafe(s.std), msg.Deadline),
		out.String(), "", preCs, preOb, pre)
	s.stat["swap:"+out.String()]++
}

func init() { suites["onboarding"] = runOnboarding }

func runOnboarding(seed uint64, nOps int, outPath string) map[string]int {
	s := &obSuite{r: SeedRng("onboarding", seed), stat: map[string]int{}}
	s.t = NewTrace(outPath)
	defer s.t.Close()
	for s.t.seq < nOps {
		s.newWorld()
		s.makePools()
		s.registerPairs()
		s.t.Line(s.envLine())
		for ep := 0; ep < 5 && s.t.seq < nOps; ep++ {
			s.newEpisode()
			s.sync()
			for i := 0; i < 60 && s.t.seq < nOps; i++ {
				switch k := s.r.Intn(21); {
				case k < 17:
					s.opRecv()
				case k < 19:
					s.opTrade()
				case k == 20:
					s.opDiscardedParams()
				default:
					s.opSend(s.w.Users[0], s.w.Users[1+s.r.Intn(4)], s.std, s.pickAmount(s.coins[0], sdkmath.OneInt()))
				}
			}
		}
	}
	_ = big.NewInt
	return s.stat
}
