package main

// Suite "epochs": the real x/epochs BeginBlocker driving the real x/inflation listener, with parameter
// updates through the real MsgUpdateParams handler, bank transfers (bonding, donations to module accounts)
// and direct samples of the pure provision function in between.  Serves C12, C13, C05.
//
// Two epochs keepers run over the SAME store: the application's own (app.go wiring, listeners = inflation
// only; hook calls are not observable there) and one built here with epochskeeper.NewKeeper over the app's
// store key whose listeners are {recorder, inflation} - the recorder logs every notification.

import (
	"fmt"
	"math/big"
	"strings"
	"time"

	sdkmath "cosmossdk.io/math"
	sdk "github.com/cosmos/cosmos-sdk/types"
	authtypes "github.com/cosmos/cosmos-sdk/x/auth/types"
	distrtypes "github.com/cosmos/cosmos-sdk/x/distribution/types"
	govtypes "github.com/cosmos/cosmos-sdk/x/gov/types"
	stakingtypes "github.com/cosmos/cosmos-sdk/x/staking/types"

	"github.com/Canto-Network/Canto/v8/x/epochs"
	epochskeeper "github.com/Canto-Network/Canto/v8/x/epochs/keeper"
	epochstypes "github.com/Canto-Network/Canto/v8/x/epochs/types"
	"github.com/Canto-Network/Canto/v8/x/inflation"
	inflationkeeper "github.com/Canto-Network/Canto/v8/x/inflation/keeper"
	inflationtypes "github.com/Canto-Network/Canto/v8/x/inflation/types"
)

var epDenoms = []string{"acanto", "ausdc", "stake", "ibc/ETH"}

type epRecorder struct{ calls []string }

func (r *epRecorder) AfterEpochEnd(_ sdk.Context, id string, n int64) {
	r.calls = append(r.calls, fmt.Sprintf("E:%s:%d", tokenSafe(id), n))
}
func (r *epRecorder) BeforeEpochStart(_ sdk.Context, id string, n int64) {
	r.calls = append(r.calls, fmt.Sprintf("B:%s:%d", tokenSafe(id), n))
}

type epSuite struct {
	w      *World
	r      *Rng
	t      *Trace
	ek     *epochskeeper.Keeper
	rec    *epRecorder
	ms     inflationtypes.MsgServer
	now    time.Time
	height int64
	bond   string
	mints  int64 // ghost: minting epochs so far in this episode (initial value chosen with the state)
	stat   map[string]int
}

func nsOf(t time.Time) string {
	b := big.NewInt(t.Unix())
	b.Mul(b, big.NewInt(1_000_000_000))
	b.Add(b, big.NewInt(int64(t.Nanosecond())))
	return b.String()
}

func b01(b bool) string {
	if b {
		return "1"
	}
	return "0"
}

func paramsKV(p inflationtypes.Params) string {
	e, d := p.ExponentialCalculation, p.InflationDistribution
	return fmt.Sprintf("md=%s a=%s r=%s c=%s bt=%s mv=%s sr=%s cpr=%s en=%s", tokenSafe(p.MintDenom),
		e.A.BigInt(), e.R.BigInt(), e.C.BigInt(), e.BondingTarget.BigInt(), e.MaxVariance.BigInt(),
		d.StakingRewards.BigInt(), d.CommunityPool.BigInt(), b01(p.EnableInflation))
}

func (s *epSuite) envLine() string {
	w := s.w
	var err error
	s.bond, err = w.App.StakingKeeper.BondDenom(w.Ctx)
	if err != nil {
		panic(err)
	}
	return fmt.Sprintf("E infl=%s fc=%s distr=%s bonded=%s bond=%s",
		w.Alias(authtypes.NewModuleAddress(inflationtypes.ModuleName)),
		w.Alias(authtypes.NewModuleAddress(authtypes.FeeCollectorName)),
		w.Alias(authtypes.NewModuleAddress(distrtypes.ModuleName)),
		w.Alias(authtypes.NewModuleAddress(stakingtypes.BondedPoolName)), tokenSafe(s.bond))
}

// module part of the state: epoch records (store order), inflation records, community pool record
func (s *epSuite) modState() string {
	w := s.w
	var infos []string
	for _, e := range w.App.EpochsKeeper.AllEpochInfos(w.Ctx) {
		infos = append(infos, fmt.Sprintf("%s:%s:%d:%d:%s:%s:%d", tokenSafe(e.Identifier), nsOf(e.StartTime), int64(e.Duration),
			e.CurrentEpoch, nsOf(e.CurrentEpochStartTime), b01(e.EpochCountingStarted), e.CurrentEpochStartHeight))
	}
	k := w.App.InflationKeeper
	prov, found := k.GetEpochMintProvision(w.Ctx)
	provS := "none"
	if found {
		provS = prov.BigInt().String()
	}
	var cp []string
	fp, err := w.App.DistrKeeper.FeePool.Get(w.Ctx)
	if err != nil {
		panic(err)
	}
	for _, c := range fp.CommunityPool {
		cp = append(cp, tokenSafe(c.Denom)+":"+c.Amount.BigInt().String())
	}
	return fmt.Sprintf("infos=%s %s period=%d eid=%s epp=%d skipped=%d prov=%s cp=%s", strings.Join(infos, ","),
		paramsKV(k.GetParams(w.Ctx)), k.GetPeriod(w.Ctx), tokenSafe(k.GetEpochIdentifier(w.Ctx)), k.GetEpochsPerPeriod(w.Ctx),
		k.GetSkippedEpochs(w.Ctx), provS, strings.Join(cp, ","))
}

func (s *epSuite) sync() {
	s.t.Line(fmt.Sprintf("S t=%s h=%d mints=%d %s %s", nsOf(s.now), s.height, s.mints, s.modState(), s.w.Snapshot().Full()))
}

func kvDelta(pre, post string) string {
	if post == pre {
		return ""
	}
	var out []string
	pm := map[string]string{}
	for _, kv := range strings.Fields(pre) {
		i := strings.Index(kv, "=")
		pm[kv[:i]] = kv[i+1:]
	}
	for _, kv := range strings.Fields(post) {
		i := strings.Index(kv, "=")
		if pm[kv[:i]] != kv[i+1:] {
			out = append(out, kv)
		}
	}
	return strings.Join(out, " ")
}

func (s *epSuite) emit(kind, args string, out Outcome, resp string, preMod string, pre Snap) {
	s.t.seq++
	post := s.w.Snapshot()
	s.t.Line(fmt.Sprintf("O %d %s %s => %s %s | %s %s", s.t.seq, kind, args, out.String(), resp, kvDelta(preMod, s.modState()), Delta(pre, post)))
	s.stat[kind+":"+out.String()]++
	if out.Class == "panic" {
		m := out.Err
		if len(m) > 40 {
			m = m[:40]
		}
		s.stat["panicmsg:"+kind+":"+m]++
	}
}

// ---------- random decimals and parameters ----------

func decOf(i sdkmath.Int) sdkmath.LegacyDec {
	return sdkmath.LegacyNewDecFromBigIntWithPrec(i.BigInt(), 18)
}

var oneE18 = pow10(18)

func (s *epSuite) unitDec(allowZero bool) sdkmath.LegacyDec {
	r := s.r
	for {
		var v sdkmath.Int
		switch r.Intn(10) {
		case 0:
			v = sdkmath.ZeroInt()
		case 1:
			v = sdkmath.OneInt()
		case 2:
			v = oneE18.SubRaw(1)
		case 3:
			v = oneE18
		case 4:
			v = pow10(17).MulRaw(int64(1 + r.Intn(9)))
		case 5:
			v = pow10(16).MulRaw(int64(1 + r.Intn(99)))
		default:
			v = r.Big(64).Mod(oneE18.AddRaw(1))
		}
		if allowZero || v.IsPositive() {
			return decOf(v)
		}
	}
}

func (s *epSuite) amountDec(huge bool) sdkmath.LegacyDec {
	r := s.r
	if huge && r.Intn(3) == 0 {
		return sdkmath.LegacyNewDecFromBigIntWithPrec(new(big.Int).Lsh(big.NewInt(1), uint(200+r.Intn(114))), 18)
	}
	switch r.Intn(12) {
	case 0:
		return sdkmath.LegacyZeroDec()
	case 1:
		return sdkmath.LegacySmallestDec()
	case 2:
		return sdkmath.LegacyNewDec(1)
	case 3, 4:
		return sdkmath.LegacyNewDec(16_304_348)
	case 5:
		return decOf(r.Big(40))
	case 6:
		return decOf(r.Big(100))
	case 7:
		if huge {
			return sdkmath.LegacyNewDecFromBigIntWithPrec(new(big.Int).Lsh(big.NewInt(1), uint(200+r.Intn(114))), 18)
		}
		return decOf(r.Big(120))
	default:
		return decOf(r.Big(90))
	}
}

func (s *epSuite) varianceDec() sdkmath.LegacyDec {
	r := s.r
	switch r.Intn(8) {
	case 0, 1:
		return sdkmath.LegacyZeroDec()
	case 2:
		return sdkmath.LegacySmallestDec()
	case 3:
		return sdkmath.LegacyNewDecWithPrec(4, 1)
	case 4:
		return sdkmath.LegacyNewDec(1)
	case 5:
		return decOf(r.Big(62))
	default:
		return s.unitDec(true)
	}
}

func (s *epSuite) randParams(huge bool) inflationtypes.Params {
	r := s.r
	sr := s.unitDec(true)
	return inflationtypes.Params{
		MintDenom: epDenoms[r.Intn(3)],
		ExponentialCalculation: inflationtypes.ExponentialCalculation{
			A: s.amountDec(huge), R: s.unitDec(true), C: s.amountDec(false), BondingTarget: s.unitDec(false), MaxVariance: s.varianceDec(),
		},
		InflationDistribution: inflationtypes.InflationDistribution{StakingRewards: sr, CommunityPool: sdkmath.LegacyOneDec().Sub(sr)},
		EnableInflation:       r.Intn(10) < 7,
	}
}

// ---------- episode set-up: epoch records and inflation state through the modules' own InitGenesis ----------

var epIDs = []string{"day", "week", "hour", "Day", "min", "day2"}
var epDur = map[string]time.Duration{"day": 24 * time.Hour, "week": 7 * 24 * time.Hour, "hour": time.Hour, "Day": 36 * time.Hour, "min": time.Minute, "day2": 24 * time.Hour}

func (s *epSuite) reset() {
	r, w := s.r, s.w
	for _, e := range w.App.EpochsKeeper.AllEpochInfos(w.Ctx) {
		w.App.EpochsKeeper.DeleteEpochInfo(w.Ctx, e.Identifier)
	}
	s.now = s.now.Add(time.Duration(1 + r.Intn(1_000_000_000)))
	s.height += int64(1 + r.Intn(3))
	w.Ctx = w.Ctx.WithBlockTime(s.now).WithBlockHeight(s.height)

	// inflation identifier and counters
	eid := "day"
	if r.Intn(6) == 0 {
		eid = epIDs[1+r.Intn(4)]
	}
	epp := r.PickInt(1, 2, 2, 3, 3, 30, 30)
	mints0, skipped0 := int64(0), int64(0)

	// which identifiers exist
	ids := []string{}
	for _, id := range epIDs {
		p := 3
		if id == "day" || id == eid {
			p = 9
		}
		if r.Intn(10) < p {
			ids = append(ids, id)
		}
	}
	tiny := r.Intn(6) == 0 // an episode with very short durations: many ticks
	var recs []epochstypes.EpochInfo
	for _, id := range ids {
		dur := epDur[id]
		if tiny {
			dur = time.Duration(r.PickInt(1, 2, 1000, 1_000_000_000, 7_000_000_000))
		} else if r.Intn(40) == 0 {
			dur = -time.Second // Validate only excludes 0
		}
		e := epochstypes.EpochInfo{Identifier: id, Duration: dur}
		absd := dur
		if absd < 0 {
			absd = -absd
		}
		if r.Intn(10) < 4 {
			// already counting: consistent record, current epoch began at most two durations ago
			k := int64(1 + r.Intn(40))
			if id == eid {
				mints0 = int64(r.Intn(int(epp)*3 + 2))
				if r.Intn(2) == 0 { // a few minting epochs before a period boundary
					mints0 = epp*int64(1+r.Intn(3)) - 1 - int64(r.Intn(4))
					if mints0 < 0 {
						mints0 = 0
					}
				}
				skipped0 = int64(r.Intn(4))
				k = 1 + mints0 + skipped0
			}
			var back time.Duration
			switch r.Intn(5) {
			case 0:
				back = 0
			case 1:
				back = absd
			case 2:
				back = absd - 1
			default:
				back = time.Duration(r.Next() % uint64(2*absd+1))
			}
			e.CurrentEpochStartTime = s.now.Add(-back)
			e.StartTime = e.CurrentEpochStartTime.Add(-time.Duration(k-1) * dur)
			if e.StartTime.After(s.now) { // negative duration: keep "started => start <= now"
				e.StartTime = s.now
				e.CurrentEpochStartTime = e.StartTime.Add(time.Duration(k-1) * dur)
			}
			e.CurrentEpoch = k
			e.EpochCountingStarted = true
		} else {
			switch r.Intn(9) {
			case 0:
				e.StartTime = time.Time{} // InitGenesis replaces it by the block time
			case 1:
				e.StartTime = s.now
			case 2:
				e.StartTime = s.now.Add(-1)
			case 3:
				e.StartTime = s.now.Add(-time.Duration(r.Next() % uint64(absd+1)))
			case 4:
				e.StartTime = s.now.Add(-time.Duration(1+r.Intn(5))*absd - time.Duration(r.Intn(1000)))
			case 5:
				e.StartTime = s.now.Add(1)
			case 6:
				e.StartTime = s.now.Add(time.Duration(1 + r.Intn(3_000_000_000)))
			case 7:
				e.StartTime = s.now.Add(absd)
			default:
				e.StartTime = time.Date(1980+r.Intn(40), 1, 1, 0, 0, 0, 0, time.UTC) // long before: one catch-up epoch per block
				if !tiny {
					e.StartTime = s.now.Add(-time.Duration(2+r.Intn(4)) * absd)
				}
			}
		}
		recs = append(recs, e)
	}
	epochs.InitGenesis(w.Ctx, w.App.EpochsKeeper, *epochstypes.NewGenesisState(recs))
	// what InitGenesis was given and what it stored (the driver checks it against the model's initGenesis)
	{
		fmtRec := func(e epochstypes.EpochInfo) string {
			return fmt.Sprintf("%s:%s:%d:%d:%s:%s:%d", tokenSafe(e.Identifier), nsOf(e.StartTime), int64(e.Duration),
				e.CurrentEpoch, nsOf(e.CurrentEpochStartTime), b01(e.EpochCountingStarted), e.CurrentEpochStartHeight)
		}
		var given, stored []string
		for _, e := range recs {
			given = append(given, fmtRec(e))
		}
		for _, e := range w.App.EpochsKeeper.AllEpochInfos(w.Ctx) {
			stored = append(stored, fmtRec(e))
		}
		s.t.seq++
		s.t.Line(fmt.Sprintf("G %d t=%s h=%d given=%s stored=%s", s.t.seq, nsOf(w.Ctx.BlockTime()), w.Ctx.BlockHeight(), strings.Join(given, ","), strings.Join(stored, ",")))
		s.stat["initgenesis:ok"]++
	}

	gs := inflationtypes.GenesisState{Params: s.randParams(false), Period: uint64(mints0 / epp), EpochIdentifier: eid,
		EpochsPerPeriod: epp, SkippedEpochs: uint64(skipped0)}
	if err := gs.Validate(); err != nil {
		panic(err)
	}
	inflation.InitGenesis(w.Ctx, w.App.InflationKeeper, w.App.AccountKeeper, w.App.StakingKeeper, gs)
	// The formula always yields a whole number of base units (its last step multiplies by 10^18), so truncating the
	// stored provision is the identity in states InitGenesis produces.  To exercise "the integer part of the provision"
	// a third of the episodes start from a stored provision with a fractional part (written through the keeper's setter,
	// as an upgrade handler could).
	if r.Intn(3) == 0 {
		k := w.App.InflationKeeper
		prov, _ := k.GetEpochMintProvision(w.Ctx)
		if r.Intn(3) == 0 {
			prov = sdkmath.LegacyNewDec(int64(r.Intn(4)))
		}
		var frac sdkmath.LegacyDec
		switch r.Intn(6) {
		case 0:
			frac = sdkmath.LegacySmallestDec()
		case 1:
			frac = sdkmath.LegacyNewDecWithPrec(5, 1)
		case 2:
			frac = sdkmath.LegacyNewDecWithPrec(5, 1).Add(sdkmath.LegacySmallestDec())
		case 3:
			frac = sdkmath.LegacyOneDec().Sub(sdkmath.LegacySmallestDec())
		default:
			frac = decOf(r.Big(64).Mod(oneE18))
		}
		k.SetEpochMintProvision(w.Ctx, prov.Add(frac))
	}
	s.mints = mints0
	s.sync()
}

// ---------- operations ----------

// next block time: sub-second steps, exact boundary hits and their neighbours, gaps of several durations
func (s *epSuite) nextStep() time.Duration {
	r := s.r
	infos := s.w.App.EpochsKeeper.AllEpochInfos(s.w.Ctx)
	k := r.Intn(100)
	if len(infos) > 0 && k < 40 {
		e := infos[r.Intn(len(infos))]
		var target time.Time
		if e.EpochCountingStarted {
			target = e.CurrentEpochStartTime.Add(e.Duration)
		} else {
			target = e.StartTime
		}
		d := target.Sub(s.now)
		switch r.Intn(8) {
		case 0:
			d-- // one nanosecond short
		case 1, 2:
			// exactly on the boundary
		case 3, 4:
			d++ // first instant after
		case 5:
			d += time.Duration(r.Intn(2_000_000_000))
		case 6:
			d += time.Duration(1+r.Intn(4)) * e.Duration // gap of several durations
		default:
			d = d / 2
		}
		if d >= 0 && d < 400*24*time.Hour {
			return d
		}
	}
	if k < 85 {
		// ordinary block spacing, sub-second steps, equal times
		switch r.Intn(8) {
		case 0:
			return 0
		case 1:
			return 1
		case 2, 3:
			return time.Duration(1 + r.Intn(999_999_999))
		case 4:
			return time.Second
		case 5:
			return 6 * time.Second
		default:
			return time.Duration(r.Intn(10_000_000_000))
		}
	}
	switch r.Intn(6) {
	case 0:
		return time.Hour
	case 1:
		return 24*time.Hour + 1
	case 2:
		return time.Duration(1+r.Intn(20)) * 24 * time.Hour
	case 3:
		return -time.Duration(1 + r.Intn(5_000_000_000)) // block time going backwards (outside the property's premise; correspondence only)
	case 4:
		return time.Minute
	default:
		return time.Duration(r.Intn(3 * 24 * 3600 * 1_000_000_000))
	}
}

func (s *epSuite) opBlock() {
	r, w := s.r, s.w
	s.now = s.now.Add(s.nextStep())
	s.height += r.PickInt(1, 1, 1, 1, 2, 7)
	w.Ctx = w.Ctx.WithBlockTime(s.now).WithBlockHeight(s.height)
	via := "rec"
	if r.Intn(4) == 0 {
		via = "app"
	}
	preMod, pre := s.modState(), w.Snapshot()
	k := w.App.InflationKeeper
	enabled, eid := k.GetParams(w.Ctx).EnableInflation, k.GetEpochIdentifier(w.Ctx)
	s.rec.calls = nil
	out := w.Deliver(func(ctx sdk.Context) error {
		if via == "app" {
			return w.App.EpochsKeeper.BeginBlocker(ctx)
		}
		return s.ek.BeginBlocker(ctx)
	})
	resp := ""
	if out.OK {
		if via == "app" {
			resp = "log=?"
		} else {
			resp = "log=" + strings.Join(s.rec.calls, ",")
			for _, c := range s.rec.calls {
				if enabled && c[:2] == "E:" && strings.HasPrefix(c[2:], tokenSafe(eid)+":") {
					s.stat["hook:mint"]++
				}
			}
			if len(s.rec.calls) == 0 {
				s.stat["block:idle"]++
			}
		}
	}
	s.emit("block", fmt.Sprintf("t=%s h=%d via=%s", nsOf(s.now), s.height, via), out, resp, preMod, pre)
}

func (s *epSuite) opParams() {
	r, w := s.r, s.w
	cur := w.App.InflationKeeper.GetParams(w.Ctx)
	p := cur
	auth := authtypes.NewModuleAddress(govtypes.ModuleName).String()
	authOK := true
	switch k := r.Intn(20); {
	case k < 9:
		p.EnableInflation = !cur.EnableInflation
	case k < 15:
		p = s.randParams(k >= 12)
	case k == 15:
		auth, authOK = w.Users[r.Intn(len(w.Users))].String(), false
	default:
		// malformed: one invalid field
		neg := sdkmath.LegacyNewDecWithPrec(-1, 18)
		switch r.Intn(9) {
		case 0:
			p.MintDenom = r.PickStr("", " ", "a", "1abc", "bad!denom")
		case 1:
			p.ExponentialCalculation.A = neg
		case 2:
			p.ExponentialCalculation.R = sdkmath.LegacyOneDec().Add(sdkmath.LegacySmallestDec())
		case 3:
			p.ExponentialCalculation.R = neg
		case 4:
			p.ExponentialCalculation.C = neg
		case 5:
			p.ExponentialCalculation.BondingTarget = []sdkmath.LegacyDec{sdkmath.LegacyZeroDec(), sdkmath.LegacyOneDec().Add(sdkmath.LegacySmallestDec()), neg}[r.Intn(3)]
		case 6:
			p.ExponentialCalculation.MaxVariance = neg
		case 7:
			p.InflationDistribution.StakingRewards = sdkmath.LegacyOneDec().Add(sdkmath.LegacySmallestDec())
			p.InflationDistribution.CommunityPool = neg
		default:
			p.InflationDistribution.CommunityPool = p.InflationDistribution.CommunityPool.Add(sdkmath.LegacySmallestDec())
		}
	}
	preMod, pre := s.modState(), w.Snapshot()
	// one update in eight is followed by a failing sibling message of the same transaction (a governance proposal whose later
	// message fails): the handler succeeds on a branch that is then discarded - nothing may remain, in the store or in memory
	later := r.Intn(8) == 0
	hok := false
	out := w.Deliver(func(ctx sdk.Context) error {
		_, err := s.ms.UpdateParams(ctx, &inflationtypes.MsgUpdateParams{Authority: auth, Params: p})
		if err == nil && later {
			hok = true
			return fmt.Errorf("a later message of the transaction failed")
		}
		return err
	})
	args := fmt.Sprintf("auth=%s %s", b01(authOK), paramsKV(p))
	if later {
		args += " later=1"
		if hok {
			out.Class = "later"
		}
	}
	s.emit("params", args, out, "", preMod, pre)
}

func (s *epSuite) opSend() {
	r, w := s.r, s.w
	user := w.Users[r.Intn(len(w.Users))]
	bonded := authtypes.NewModuleAddress(stakingtypes.BondedPoolName)
	infl := authtypes.NewModuleAddress(inflationtypes.ModuleName)
	src, dst := user, bonded
	d := s.bond
	switch r.Intn(10) {
	case 0, 1, 2: // bond
	case 3, 4: // unbond
		src, dst = bonded, user
	case 5, 6, 7: // donation to the inflation account, any denomination
		dst, d = infl, epDenoms[r.Intn(len(epDenoms))]
	case 8:
		dst, d = authtypes.NewModuleAddress(distrtypes.ModuleName), epDenoms[r.Intn(len(epDenoms))]
	default:
		dst, d = w.Users[r.Intn(len(w.Users))], epDenoms[r.Intn(len(epDenoms))]
	}
	bal := w.App.BankKeeper.GetBalance(w.Ctx, src, d).Amount
	var amt sdkmath.Int
	switch r.Intn(8) {
	case 0:
		amt = sdkmath.NewInt(int64(r.Intn(5)))
	case 1:
		amt = bal
	case 2:
		amt = bal.AddRaw(1)
	case 3:
		amt = bal.QuoRaw(2)
	default:
		amt = r.Big(100).Mod(bal.AddRaw(1))
	}
	preMod, pre := s.modState(), w.Snapshot()
	out := w.Deliver(func(ctx sdk.Context) error {
		return w.App.BankKeeper.SendCoins(ctx, src, dst, sdk.NewCoins(sdk.NewCoin(d, amt)))
	})
	s.emit("send", fmt.Sprintf("src=%s dst=%s d=%s amt=%s", w.Alias(src), w.Alias(dst), tokenSafe(d), amt), out, "", preMod, pre)
}

func calcSafe(p inflationtypes.Params, period uint64, epp int64, b sdkmath.LegacyDec) (res string, ok bool) {
	defer func() {
		if r := recover(); r != nil {
			res, ok = "panic", false
		}
	}()
	return inflationtypes.CalculateEpochMintProvision(p, period, epp, b).BigInt().String(), true
}

// the pure function on arbitrary valid parameters, periods up to 5000 and bonded ratios in [0,1] (and a little beyond)
func (s *epSuite) opCalc() {
	r := s.r
	p := s.randParams(r.Intn(12) == 0)
	var period uint64
	switch r.Intn(6) {
	case 0:
		period = uint64(r.Intn(4))
	case 1:
		period = uint64(r.Intn(64))
	case 2:
		period = uint64(r.PickInt(255, 256, 1023, 1024, 4095, 4096, 4999, 5000))
	default:
		period = uint64(r.Intn(5001))
	}
	epp := r.PickInt(1, 2, 3, 30, 30, 365, int64(1+r.Intn(1000)))
	b := s.unitDec(true)
	switch r.Intn(8) {
	case 0:
		b = p.ExponentialCalculation.BondingTarget
	case 1:
		b = p.ExponentialCalculation.BondingTarget.Sub(sdkmath.LegacySmallestDec())
	case 2:
		b = sdkmath.LegacyNewDecWithPrec(15, 1)
	}
	if b.IsNegative() {
		b = sdkmath.LegacyZeroDec()
	}
	v, ok := calcSafe(p, period, epp, b)
	v1, _ := calcSafe(p, period+1, epp, b)
	out := Outcome{OK: ok, Class: "panic"}
	resp := ""
	if ok {
		resp = "p=" + v + " q=" + v1
	}
	s.t.seq++
	s.t.Line(fmt.Sprintf("O %d calc %s x=%d epp=%d b=%s => %s %s | ", s.t.seq, paramsKV(p), period, epp, b.BigInt(), out.String(), resp))
	s.stat["calc:"+out.String()]++
}

func init() { suites["epochs"] = runEpochs }

func runEpochs(seed uint64, nOps int, outPath string) map[string]int {
	s := &epSuite{r: SeedRng("epochs", seed), stat: map[string]int{}}
	s.t = NewTrace(outPath)
	defer s.t.Close()
	done := 0
	for done < nOps {
		// a fresh application every 8 episodes
		s.now = time.Unix(1_700_000_000+int64(s.r.Intn(100_000)), int64(s.r.PickInt(0, 0, 500_000_000, 999_999_999)))
		s.height = int64(1 + s.r.Intn(1000))
		fund := sdk.NewCoins()
		for _, d := range epDenoms {
			fund = fund.Add(sdk.NewCoin(d, pow10(27)))
		}
		s.w = NewWorld(4, fund, s.now)
		s.rec = &epRecorder{}
		s.ek = epochskeeper.NewKeeper(s.w.App.AppCodec(), s.w.App.GetKey(epochstypes.StoreKey)).SetHooks(
			epochskeeper.NewMultiEpochHooks(s.rec, s.w.App.InflationKeeper.Hooks()))
		s.ms = inflationkeeper.NewMsgServerImpl(s.w.App.InflationKeeper)
		s.t.Line(s.envLine())
		for ep := 0; ep < 8 && done < nOps; ep++ {
			s.reset()
			n := 25 + s.r.Intn(50)
			for i := 0; i < n && done < nOps; i++ {
				switch k := s.r.Intn(100); {
				case k < 66:
					s.opBlock()
				case k < 75:
					s.opParams()
				case k < 87:
					s.opSend()
				default:
					s.opCalc()
				}
				done++
			}
		}
	}
	return s.stat
}
